//! C05 / C14: lexer, location algebra, crash/hang monitor, AST location walker.
//!
//!   vh lex-run lex            stdin {"id","text"}                  -> {"id","tokens":[[kind,sl,sc,el,ec,text]],"errors":[[sl,sc,el,ec,msg]],"panic"}
//!   vh lex-run loc            stdin {"id","a":[4],"b":[4],"p":[2]} -> {"id","contains","contains_rev","cp","union","lt","le"}
//!   vh lex-run loc-grid N     all pairs of locations over the N x N position grid, one hex digit each (see loc_grid_main)
//!   vh lex-run monitor-batch  stdin {"id","sources":{mod:text}}    -> "BEGIN <id>" then one result line per input (child side)
//!   vh lex-run monitor N      stdin as monitor-batch               -> one result line per input; children are `monitor-batch`
//!                                                                      processes; abnormal exits and hangs are attributed and confirmed
//!   vh lex-run ast-locs       stdin {"id","sources":{mod:text},"services":bool} -> location invariants of AST / diagnostics / services
use crate::front::{mod_ref, panic_msg};
use samlang_ast::source::*;
use samlang_ast::{Location, Position};
use samlang_errors::ErrorSet;
use samlang_heap::{Heap, ModuleReference};
use serde_json::{Value, json};
use std::collections::{BTreeMap, HashMap};
use std::io::{BufRead, Write};
use std::panic::{AssertUnwindSafe, catch_unwind};

const STACK: usize = 8 * 1024 * 1024;
const WATCHDOG_MS: u64 = 5000;

fn loc4(l: &Location) -> Value {
  json!([l.start.0, l.start.1, l.end.0, l.end.1])
}

// ------------------------------------------------------------------------------------------- lex

fn lex_tokens(text: &str) -> Result<(Vec<Value>, Vec<Value>), String> {
  catch_unwind(AssertUnwindSafe(|| {
    let mut heap = Heap::new();
    let m = mod_ref(&mut heap, "Test");
    let mut es = ErrorSet::new();
    let toks = samlang_parser::verif::lex(text, m, &mut heap, &mut es);
    let sources = HashMap::new();
    let tokens: Vec<Value> =
      toks.iter().map(|(k, l, s)| json!([k, l.start.0, l.start.1, l.end.0, l.end.1, s])).collect();
    let errors: Vec<Value> = es
      .errors()
      .iter()
      .map(|e| {
        let ide = e.to_ide_format(&heap, &sources);
        json!([e.location.start.0, e.location.start.1, e.location.end.0, e.location.end.1, ide.ide_error])
      })
      .collect();
    (tokens, errors)
  }))
  .map_err(panic_msg)
}

fn lex_main() {
  let stdin = std::io::stdin();
  let out = std::io::stdout();
  let mut out = out.lock();
  for line in stdin.lock().lines() {
    let line = line.unwrap();
    if line.trim().is_empty() {
      continue;
    }
    let job: Value = serde_json::from_str(&line).unwrap();
    let text = job["text"].as_str().unwrap();
    let r = match lex_tokens(text) {
      Ok((t, e)) => json!({"id": job["id"], "tokens": t, "errors": e, "panic": Value::Null}),
      Err(p) => json!({"id": job["id"], "tokens": [], "errors": [], "panic": p}),
    };
    writeln!(out, "{}", r).unwrap();
  }
}

// ------------------------------------------------------------------------------------------- loc

fn u(v: &Value) -> u32 {
  v.as_u64().unwrap() as u32
}

fn loc_main() {
  let stdin = std::io::stdin();
  let out = std::io::stdout();
  let mut out = out.lock();
  for line in stdin.lock().lines() {
    let line = line.unwrap();
    if line.trim().is_empty() {
      continue;
    }
    let job: Value = serde_json::from_str(&line).unwrap();
    let a = Location::from_pos(u(&job["a"][0]), u(&job["a"][1]), u(&job["a"][2]), u(&job["a"][3]));
    let b = Location::from_pos(u(&job["b"][0]), u(&job["b"][1]), u(&job["b"][2]), u(&job["b"][3]));
    let p = Position(u(&job["p"][0]), u(&job["p"][1]));
    let r = catch_unwind(AssertUnwindSafe(|| {
      json!({
        "id": job["id"],
        "contains": a.contains(&b),
        "contains_rev": b.contains(&a),
        "cp": a.contains_position(p),
        "union": loc4(&a.union(&b)),
        "lt": a.start < a.end,
        "le": a.start <= a.end,
      })
    }));
    match r {
      Ok(v) => writeln!(out, "{}", v).unwrap(),
      Err(e) => writeln!(out, "{}", json!({"id": job["id"], "panic": panic_msg(e)})).unwrap(),
    }
  }
}

/// All ordered pairs of locations over the n x n position grid: one hex digit per pair
/// (8 = a.contains(b), 4 = b.contains(a), 2 = union.start == a.start, 1 = union.end == a.end),
/// then one 0/1 digit per (location, position) for contains_position.  Same order as C14.Corr.
fn loc_grid_main(args: &[String]) {
  let n: u32 = args.first().and_then(|s| s.parse().ok()).unwrap_or(6);
  let mut ps = Vec::new();
  for l in 0..n {
    for c in 0..n {
      ps.push(Position(l, c));
    }
  }
  let mut locs = Vec::new();
  for s in &ps {
    for e in &ps {
      locs.push(Location { module_reference: ModuleReference::DUMMY, start: *s, end: *e });
    }
  }
  let r = catch_unwind(AssertUnwindSafe(|| {
    let mut pairs = String::with_capacity(locs.len() * locs.len());
    for a in &locs {
      for b in &locs {
        let u = a.union(b);
        let d = (a.contains(b) as u32) * 8 + (b.contains(a) as u32) * 4 + ((u.start == a.start) as u32) * 2 + ((u.end == a.end) as u32);
        pairs.push(std::char::from_digit(d, 16).unwrap());
      }
    }
    let mut cps = String::new();
    for a in &locs {
      for p in &ps {
        cps.push(if a.contains_position(*p) { '1' } else { '0' });
      }
    }
    (pairs, cps)
  }));
  match r {
    Ok((pairs, cps)) => {
      println!("{}", pairs);
      println!("{}", cps);
    }
    Err(e) => println!("PANIC {}", panic_msg(e)),
  }
}

// ------------------------------------------------------------------------------------------- monitor (C05 layer C)

/// Significant tokens of `text` for the skipped/invented-token oracle: comments dropped;
/// parentheses, commas and semicolons dropped (the printer adds/removes redundant ones);
/// everything else as (kind, text).
fn sig_tokens(text: &str) -> Option<Vec<(String, String)>> {
  let mut heap = Heap::new();
  let m = mod_ref(&mut heap, "Test");
  let mut es = ErrorSet::new();
  let toks = catch_unwind(AssertUnwindSafe(|| samlang_parser::verif::lex(text, m, &mut heap, &mut es))).ok()?;
  Some(
    toks
      .into_iter()
      .filter(|(k, _, s)| {
        !k.ends_with("comment") && !(*k == "operator" && matches!(s.as_str(), "(" | ")" | "," | ";"))
      })
      .map(|(k, _, s)| (k.to_string(), s))
      .collect(),
  )
}

/// Split a significant-token sequence into the import section, as a sorted set of
/// (module path, imported member) pairs (the printer sorts imports, merges imports of the same
/// module and drops duplicates), and the rest.
fn split_imports(toks: &[(String, String)]) -> (Vec<(String, String)>, Vec<(String, String)>) {
  let mut i = 0;
  let mut imports = Vec::new();
  while i < toks.len() && toks[i] == ("keyword".to_string(), "import".to_string()) {
    let mut j = i + 1;
    // an import ends before the next `import`, `class`, `interface`, `private` keyword
    while j < toks.len()
      && !(toks[j].0 == "keyword" && matches!(toks[j].1.as_str(), "import" | "class" | "interface" | "private"))
    {
      j += 1;
    }
    let body = &toks[i + 1..j];
    let from = body.iter().position(|t| t.0 == "keyword" && t.1 == "from");
    let (members, module) = match from {
      Some(k) => (&body[..k], body[k + 1..].iter().map(|t| t.1.clone()).collect::<Vec<_>>().join("")),
      None => (body, "<no from>".to_string()),
    };
    let mut any = false;
    for m in members.iter().filter(|t| !(t.0 == "operator" && matches!(t.1.as_str(), "{" | "}"))) {
      imports.push((module.clone(), format!("{}:{}", m.0, m.1)));
      any = true;
    }
    if !any {
      imports.push((module.clone(), "<none>".to_string()));
    }
    i = j;
  }
  imports.sort();
  imports.dedup();
  (imports, toks[i..].to_vec())
}

struct StageOut {
  panics: Vec<(String, String)>,
  n_errors: usize,
  n_syntax: usize,
  compile: String,
  oracle: Vec<Value>,
  stages_ms: Vec<(String, u128)>,
}

fn stage(job: &Value, name: &str) {
  println!("STAGE {} {}", job["id"], name);
  let _ = std::io::stdout().flush();
}

fn run_pipeline(job: &Value) -> StageOut {
  let mut heap = Heap::new();
  let mut sources: HashMap<ModuleReference, String> = HashMap::new();
  let mut names: BTreeMap<String, ModuleReference> = BTreeMap::new();
  for (n, t) in job["sources"].as_object().unwrap() {
    let m = mod_ref(&mut heap, n);
    sources.insert(m, t.as_str().unwrap().to_string());
    names.insert(n.clone(), m);
  }
  let with_std = job["with_std"].as_bool().unwrap_or(false);
  if with_std {
    for (k, v) in samlang_parser::builtin_std_raw_sources(&mut heap) {
      sources.entry(k).or_insert(v);
    }
  }
  let mut out =
    StageOut { panics: vec![], n_errors: 0, n_syntax: 0, compile: "skipped".into(), oracle: vec![], stages_ms: vec![] };
  let mut error_set = ErrorSet::new();
  let mut parsed: HashMap<ModuleReference, Module<()>> = HashMap::new();
  // 1. parse
  let mut parse_ms = 0u128;
  let mut format_ms = 0u128;
  for (n, m) in &names {
    let text = sources.get(m).unwrap().clone();
    let mut local = ErrorSet::new();
    stage(job, "parse");
    let t0 = std::time::Instant::now();
    let parse_result = catch_unwind(AssertUnwindSafe(|| {
      samlang_parser::parse_source_module_from_text(&text, *m, &mut heap, &mut local)
    }));
    parse_ms += t0.elapsed().as_millis();
    let t0 = std::time::Instant::now();
    match parse_result {
      Ok(module) => {
        let syntax = local.errors().iter().filter(|e| e.is_syntax_error()).count();
        // 4. format + oracle (only modules without syntax errors are formatted, as the services do)
        if syntax == 0 {
          stage(job, "format");
          match catch_unwind(AssertUnwindSafe(|| samlang_printer::pretty_print_source_module(&heap, 100, &module))) {
            Ok(printed) => {
              if let (Some(a), Some(b)) = (sig_tokens(&text), sig_tokens(&printed)) {
                let (ia, ra) = split_imports(&a);
                let (ib, rb) = split_imports(&b);
                if ia != ib || ra != rb {
                  let k = ra.iter().zip(rb.iter()).take_while(|(x, y)| x == y).count();
                  out.oracle.push(json!({
                    "module": n, "what": "no syntax error reported but print(parse(text)) has different significant tokens",
                    "first_diff_index": k,
                    "input_tokens": ra.iter().skip(k.saturating_sub(2)).take(6).collect::<Vec<_>>(),
                    "printed_tokens": rb.iter().skip(k.saturating_sub(2)).take(6).collect::<Vec<_>>(),
                    "imports_differ": ia != ib,
                  }));
                }
              }
            }
            Err(e) => out.panics.push((format!("format {n}"), panic_msg(e))),
          }
        }
        parsed.insert(*m, module);
      }
      Err(e) => out.panics.push((format!("parse {n}"), panic_msg(e))),
    }
    format_ms += t0.elapsed().as_millis();
    out.n_syntax += local.errors().iter().filter(|e| e.is_syntax_error()).count();
    error_set.merge(local);
  }
  if with_std {
    let std_mods: Vec<ModuleReference> = sources.keys().filter(|k| !parsed.contains_key(k)).copied().collect();
    for m in std_mods {
      if names.values().any(|x| *x == m) {
        continue;
      }
      let text = sources.get(&m).unwrap().clone();
      let mut local = ErrorSet::new();
      if let Ok(module) = catch_unwind(AssertUnwindSafe(|| {
        samlang_parser::parse_source_module_from_text(&text, m, &mut heap, &mut local)
      })) {
        parsed.insert(m, module);
      }
      error_set.merge(local);
    }
  }
  out.stages_ms.push(("parse".into(), parse_ms));
  out.stages_ms.push(("format".into(), format_ms));
  // 2. check
  stage(job, "check");
  let t0 = std::time::Instant::now();
  if let Err(e) = catch_unwind(AssertUnwindSafe(|| {
    let _ = samlang_checker::type_check_sources(&parsed, &mut error_set);
  })) {
    out.panics.push(("check".into(), panic_msg(e)));
  }
  out.stages_ms.push(("check".into(), t0.elapsed().as_millis()));
  out.n_errors = error_set.errors().len();
  // 3. render, both formats
  stage(job, "render");
  let t0 = std::time::Instant::now();
  if let Err(e) = catch_unwind(AssertUnwindSafe(|| {
    let _ = error_set.pretty_print_error_messages(&heap, &sources);
  })) {
    out.panics.push(("render-text".into(), panic_msg(e)));
  }
  if let Err(e) = catch_unwind(AssertUnwindSafe(|| {
    for e in error_set.errors() {
      let _ = e.to_ide_format(&heap, &sources);
    }
  })) {
    out.panics.push(("render-ide".into(), panic_msg(e)));
  }
  out.stages_ms.push(("render".into(), t0.elapsed().as_millis()));
  // 5. compile (whole program)
  stage(job, "compile");
  let t0 = std::time::Instant::now();
  let entries: Vec<ModuleReference> = names.values().copied().collect();
  match catch_unwind(AssertUnwindSafe(|| samlang_compiler::compile_sources(&mut heap, sources.clone(), entries, false))) {
    Ok(Ok(_)) => out.compile = "ok".into(),
    Ok(Err(_)) => out.compile = "rejected".into(),
    Err(e) => {
      out.compile = "panic".into();
      out.panics.push(("compile".into(), panic_msg(e)));
    }
  }
  out.stages_ms.push(("compile".into(), t0.elapsed().as_millis()));
  if out.compile == "ok" && out.n_errors > 0 {
    out.oracle.push(json!({"what": "compile_sources succeeded although the front end reported errors"}));
  }
  out
}

fn monitor_batch_main() {
  let stdin = std::io::stdin();
  let lines: Vec<String> = stdin.lock().lines().map(|l| l.unwrap()).filter(|l| !l.trim().is_empty()).collect();
  for line in lines {
    let job: Value = serde_json::from_str(&line).unwrap();
    let id = job["id"].clone();
    println!("BEGIN {}", id);
    std::io::stdout().flush().unwrap();
    let (tx, rx) = std::sync::mpsc::channel();
    let job2 = job.clone();
    let t0 = std::time::Instant::now();
    let _h = std::thread::Builder::new()
      .stack_size(STACK)
      .spawn(move || {
        let r = run_pipeline(&job2);
        let _ = tx.send(r);
      })
      .unwrap();
    match rx.recv_timeout(std::time::Duration::from_millis(WATCHDOG_MS)) {
      Ok(r) => {
        println!(
          "{}",
          json!({"id": id, "outcome": if r.panics.is_empty() { "ok" } else { "panic" },
                 "panics": r.panics, "errors": r.n_errors, "syntax_errors": r.n_syntax, "compile": r.compile,
                 "oracle": r.oracle, "ms": t0.elapsed().as_millis() as u64, "stages_ms": r.stages_ms})
        );
        std::io::stdout().flush().unwrap();
      }
      Err(_) => {
        // the worker cannot be killed: report and leave; the parent restarts after this input
        println!("{}", json!({"id": id, "outcome": "hang", "ms": t0.elapsed().as_millis() as u64}));
        std::io::stdout().flush().unwrap();
        std::process::exit(3);
      }
    }
  }
}

/// Run `jobs` (JSON lines) in a child; returns result lines; on abnormal exit attributes it to the
/// input that was in progress, and continues with the rest in a new child.
fn run_in_children(jobs: &[String], confirm: bool) -> Vec<Value> {
  let exe = std::env::current_exe().unwrap();
  let mut results = Vec::new();
  let mut start = 0;
  while start < jobs.len() {
    let mut child = std::process::Command::new(&exe)
      .args(["lex-run", "monitor-batch"])
      .env("RUST_MIN_STACK", STACK.to_string())
      .stdin(std::process::Stdio::piped())
      .stdout(std::process::Stdio::piped())
      .stderr(std::process::Stdio::piped())
      .spawn()
      .unwrap();
    {
      let mut si = child.stdin.take().unwrap();
      let payload = jobs[start..].join("\n") + "\n";
      // write on a thread: the child may die early
      std::thread::spawn(move || {
        let _ = si.write_all(payload.as_bytes());
      });
    }
    let mut so = child.stdout.take().unwrap();
    let mut se = child.stderr.take().unwrap();
    let eh = std::thread::spawn(move || {
      let mut s = String::new();
      let _ = std::io::Read::read_to_string(&mut se, &mut s);
      s
    });
    let mut buf = String::new();
    let _ = std::io::Read::read_to_string(&mut so, &mut buf);
    let status = child.wait().unwrap();
    let stderr = eh.join().unwrap_or_default();
    let mut done = 0;
    let mut in_progress = false;
    let mut last_stage = String::new();
    for l in buf.lines() {
      if l.starts_with("BEGIN ") {
        in_progress = true;
        last_stage.clear();
      } else if l.starts_with("STAGE ") {
        last_stage = l.rsplit(' ').next().unwrap_or("").to_string();
      } else if l.starts_with('{') {
        if let Ok(mut v) = serde_json::from_str::<Value>(l) {
          if v["outcome"] == "hang" {
            v["stage"] = json!(last_stage.clone());
          }
          results.push(v);
          done += 1;
          in_progress = false;
        }
      }
    }
    let hang = results.last().map(|v| v["outcome"] == "hang").unwrap_or(false) && status.code() == Some(3);
    if status.success() || hang {
      start += done;
      if status.success() && done == 0 {
        break;
      }
      continue;
    }
    // abnormal exit: the input at index start+done was in progress (or the child died between inputs)
    let culprit = start + done;
    if culprit >= jobs.len() {
      break;
    }
    let job: Value = serde_json::from_str(&jobs[culprit]).unwrap();
    #[cfg(unix)]
    let sig = std::os::unix::process::ExitStatusExt::signal(&status);
    #[cfg(not(unix))]
    let sig: Option<i32> = None;
    let tail: String = stderr.chars().rev().take(300).collect::<String>().chars().rev().collect();
    let mut confirmed = Value::Null;
    if confirm {
      // re-run the culprit alone: the abort must reproduce on this input alone
      let again = run_in_children(&jobs[culprit..culprit + 1], false);
      confirmed = json!(again.first().map(|v| v["outcome"] == "abort").unwrap_or(false));
    }
    results.push(json!({"id": job["id"], "outcome": "abort", "signal": sig, "exit_code": status.code(),
                        "in_progress_marker_seen": in_progress, "stage": last_stage, "stderr_tail": tail, "confirmed_alone": confirmed}));
    start = culprit + 1;
  }
  results
}

fn monitor_main(args: &[String]) {
  let nproc: usize = args.first().and_then(|s| s.parse().ok()).unwrap_or(8).max(1);
  let stdin = std::io::stdin();
  let jobs: Vec<String> = stdin.lock().lines().map(|l| l.unwrap()).filter(|l| !l.trim().is_empty()).collect();
  let chunk = ((jobs.len() + nproc - 1) / nproc).max(1);
  let mut handles = Vec::new();
  for part in jobs.chunks(chunk) {
    let part: Vec<String> = part.to_vec();
    handles.push(std::thread::spawn(move || run_in_children(&part, true)));
  }
  let out = std::io::stdout();
  let mut out = out.lock();
  for h in handles {
    for v in h.join().unwrap() {
      writeln!(out, "{}", v).unwrap();
    }
  }
}

// ------------------------------------------------------------------------------------------- AST location walker (C14 layer C)

/// A node of the location tree. `loc == None`: a grouping node without a position of its own
/// (its children are promoted to its parent). `name`: for identifiers, the text that the
/// location must spell. `ordered`: the children are a source-ordered sequence.
struct N {
  tag: &'static str,
  loc: Option<Location>,
  name: Option<String>,
  kids: Vec<N>,
}

fn n(tag: &'static str, loc: Location, kids: Vec<N>) -> N {
  N { tag, loc: Some(loc), name: None, kids }
}

fn grp(tag: &'static str, kids: Vec<N>) -> N {
  N { tag, loc: None, name: None, kids }
}

fn id_node(heap: &Heap, id: &Id) -> N {
  N { tag: "Id", loc: Some(id.loc), name: Some(id.name.as_str(heap).to_string()), kids: vec![] }
}

fn targs(heap: &Heap, t: &annotation::TypeArguments) -> N {
  n("TypeArguments", t.location, t.arguments.iter().map(|a| annot(heap, a)).collect())
}

fn annot_id(heap: &Heap, a: &annotation::Id) -> N {
  let mut kids = vec![id_node(heap, &a.id)];
  if let Some(t) = &a.type_arguments {
    kids.push(targs(heap, t));
  }
  n("annotation::Id", a.location, kids)
}

fn annot(heap: &Heap, a: &annotation::T) -> N {
  match a {
    annotation::T::Primitive(l, _, k) => {
      N { tag: "annotation::Primitive", loc: Some(*l), name: Some(k.kind_str().to_string()), kids: vec![] }
    }
    annotation::T::Id(i) => annot_id(heap, i),
    annotation::T::Generic(l, id) => n("annotation::Generic", *l, vec![id_node(heap, id)]),
    annotation::T::Fn(f) => n(
      "annotation::Fn",
      f.location,
      vec![
        n("ParenthesizedAnnotationList", f.parameters.location, f.parameters.annotations.iter().map(|x| annot(heap, x)).collect()),
        annot(heap, &f.return_type),
      ],
    ),
  }
}

fn tparams(heap: &Heap, t: &annotation::TypeParameters) -> N {
  n(
    "TypeParameters",
    t.location,
    t.parameters
      .iter()
      .map(|p| {
        let mut kids = vec![id_node(heap, &p.name)];
        if let Some(b) = &p.bound {
          kids.push(annot_id(heap, b));
        }
        n("TypeParameter", p.loc, kids)
      })
      .collect(),
  )
}

fn tuple_pat(heap: &Heap, t: &pattern::TuplePattern<()>) -> N {
  n("TuplePattern", t.location, t.elements.iter().map(|e| pat(heap, &e.pattern)).collect())
}

fn pat(heap: &Heap, p: &pattern::MatchingPattern<()>) -> N {
  use pattern::MatchingPattern as P;
  match p {
    P::Tuple(t) => tuple_pat(heap, t),
    P::Object { location, elements, .. } => n(
      "ObjectPattern",
      *location,
      elements
        .iter()
        .map(|e| {
          // for the shorthand `{ a }` field name and pattern are the same token
          let kids = if e.shorthand { vec![id_node(heap, &e.field_name)] } else { vec![id_node(heap, &e.field_name), pat(heap, &e.pattern)] };
          n("ObjectPatternElement", e.loc, kids)
        })
        .collect(),
    ),
    P::Variant(v) => {
      let mut kids = vec![id_node(heap, &v.tag)];
      if let Some(d) = &v.data_variables {
        kids.push(tuple_pat(heap, d));
      }
      n("VariantPattern", v.loc, kids)
    }
    P::Id(id, _) => id_node(heap, id),
    P::Wildcard { location, .. } => N { tag: "Wildcard", loc: Some(*location), name: Some("_".into()), kids: vec![] },
    P::Or { location, patterns } => n("OrPattern", *location, patterns.iter().map(|x| pat(heap, x)).collect()),
  }
}

fn paren_list(heap: &Heap, l: &expr::ParenthesizedExpressionList<()>) -> N {
  n("ParenthesizedExpressionList", l.loc, l.expressions.iter().map(|e| ex(heap, e)).collect())
}

fn block(heap: &Heap, b: &expr::Block<()>) -> N {
  let mut kids: Vec<N> = b
    .statements
    .iter()
    .map(|s| match s {
      expr::Statement::Declaration(d) => {
        let mut k = vec![pat(heap, &d.pattern)];
        if let Some(a) = &d.annotation {
          k.push(annot(heap, a));
        }
        k.push(ex(heap, &d.assigned_expression));
        n("DeclarationStatement", d.loc, k)
      }
      expr::Statement::Expression(e) => ex(heap, e),
    })
    .collect();
  if let Some(e) = &b.expression {
    kids.push(ex(heap, e));
  }
  n("Block", b.common.loc, kids)
}

fn if_else(heap: &Heap, i: &expr::IfElse<()>) -> N {
  let mut kids = match i.condition.as_ref() {
    expr::IfElseCondition::Expression(e) => vec![ex(heap, e)],
    expr::IfElseCondition::Guard(p, e) => vec![pat(heap, p), ex(heap, e)],
  };
  kids.push(block(heap, &i.e1));
  kids.push(match i.e2.as_ref() {
    expr::IfElseOrBlock::IfElse(x) => if_else(heap, x),
    expr::IfElseOrBlock::Block(b) => block(heap, b),
  });
  n("IfElse", i.common.loc, kids)
}

fn ex(heap: &Heap, e: &expr::E<()>) -> N {
  use expr::E;
  match e {
    E::Literal(c, l) => {
      // the location of a literal spells the literal, except for the merged `- 2147483648`
      let name = match l {
        Literal::Int(i32::MIN) => None,
        Literal::String(_) => None, // the AST holds the unescaped text; checked by the lexer tie instead
        other => Some(other.pretty_print(heap)),
      };
      N { tag: "Literal", loc: Some(c.loc), name, kids: vec![] }
    }
    E::LocalId(c, id) => n("LocalId", c.loc, vec![id_node(heap, id)]),
    E::ClassId(c, _, id) => n("ClassId", c.loc, vec![id_node(heap, id)]),
    E::Tuple(c, l) => n("Tuple", c.loc, vec![paren_list(heap, l)]),
    E::FieldAccess(f) => {
      let mut kids = vec![ex(heap, &f.object), id_node(heap, &f.field_name)];
      if let Some(t) = &f.explicit_type_arguments {
        kids.push(targs(heap, t));
      }
      n("FieldAccess", f.common.loc, kids)
    }
    E::MethodAccess(f) => {
      let mut kids = vec![ex(heap, &f.object), id_node(heap, &f.method_name)];
      if let Some(t) = &f.explicit_type_arguments {
        kids.push(targs(heap, t));
      }
      n("MethodAccess", f.common.loc, kids)
    }
    E::Unary(u) => n("Unary", u.common.loc, vec![ex(heap, &u.argument)]),
    E::Call(c) => n("Call", c.common.loc, vec![ex(heap, &c.callee), paren_list(heap, &c.arguments)]),
    E::Binary(b) => n("Binary", b.common.loc, vec![ex(heap, &b.e1), ex(heap, &b.e2)]),
    E::IfElse(i) => if_else(heap, i),
    E::Match(m) => {
      let mut kids = vec![ex(heap, &m.matched)];
      for c in &m.cases {
        kids.push(n("MatchCase", c.loc, vec![pat(heap, &c.pattern), ex(heap, &c.body)]));
      }
      n("Match", m.common.loc, kids)
    }
    E::Lambda(l) => {
      let params = n(
        "LambdaParameters",
        l.parameters.loc,
        l.parameters
          .parameters
          .iter()
          .map(|p| {
            let mut k = vec![id_node(heap, &p.name)];
            if let Some(a) = &p.annotation {
              k.push(annot(heap, a));
            }
            grp("OptionallyAnnotatedId", k)
          })
          .collect(),
      );
      n("Lambda", l.common.loc, vec![params, ex(heap, &l.body)])
    }
    E::Block(b) => block(heap, b),
  }
}

fn member_decl(heap: &Heap, d: &ClassMemberDeclaration, body: Option<&expr::E<()>>) -> N {
  // source order: `function <T> name(params): ret = body`
  let mut kids = Vec::new();
  if let Some(t) = &d.type_parameters {
    kids.push(tparams(heap, t));
  }
  kids.push(id_node(heap, &d.name));
  kids.push(n(
    "FunctionParameters",
    d.parameters.location,
    d.parameters.parameters.iter().map(|p| grp("AnnotatedId", vec![id_node(heap, &p.name), annot(heap, &p.annotation)])).collect(),
  ));
  kids.push(annot(heap, &d.return_type));
  // for a class member the declaration's location spans the body too (parse_class_member_definition)
  if let Some(b) = body {
    kids.push(ex(heap, b));
  }
  n("ClassMemberDeclaration", d.loc, kids)
}

fn extends(heap: &Heap, e: &ExtendsOrImplementsNodes) -> N {
  n("ExtendsOrImplementsNodes", e.location, e.nodes.iter().map(|x| annot_id(heap, x)).collect())
}

fn typedef(heap: &Heap, t: &TypeDefinition) -> N {
  match t {
    TypeDefinition::Struct { loc, fields, .. } => n(
      "StructDefinition",
      *loc,
      fields.iter().map(|f| grp("FieldDefinition", vec![id_node(heap, &f.name), annot(heap, &f.annotation)])).collect(),
    ),
    TypeDefinition::Enum { loc, variants, .. } => n(
      "EnumDefinition",
      *loc,
      variants
        .iter()
        .map(|v| {
          let mut k = vec![id_node(heap, &v.name)];
          if let Some(a) = &v.associated_data_types {
            k.push(n("ParenthesizedAnnotationList", a.location, a.annotations.iter().map(|x| annot(heap, x)).collect()));
          }
          grp("VariantDefinition", k)
        })
        .collect(),
    ),
  }
}

fn module_tree(heap: &Heap, m: &Module<()>) -> Vec<N> {
  let mut tops = Vec::new();
  for i in &m.imports {
    let mut kids: Vec<N> = i.imported_members.iter().map(|x| id_node(heap, x)).collect();
    kids.push(n("imported_module_loc", i.imported_module_loc, vec![]));
    tops.push(n("Import", i.loc, kids));
  }
  for t in &m.toplevels {
    match t {
      Toplevel::Interface(i) => {
        let mut kids = vec![id_node(heap, &i.name)];
        if let Some(tp) = &i.type_parameters {
          kids.push(tparams(heap, tp));
        }
        if let Some(e) = &i.extends_or_implements_nodes {
          kids.push(extends(heap, e));
        }
        kids.push(n("Members", i.members.loc, i.members.members.iter().map(|d| member_decl(heap, d, None)).collect()));
        tops.push(n("Interface", i.loc, kids));
      }
      Toplevel::Class(c) => {
        let mut kids = vec![id_node(heap, &c.name)];
        // type parameters and type definition are siblings (since 6471891 the definition's location no longer
        // starts at the `<` of the type parameter list)
        if let Some(tp) = &c.type_parameters {
          kids.push(tparams(heap, tp));
        }
        if let Some(td) = &c.type_definition {
          kids.push(typedef(heap, td));
        }
        if let Some(e) = &c.extends_or_implements_nodes {
          kids.push(extends(heap, e));
        }
        kids.push(n("Members", c.members.loc, c.members.members.iter().map(|d| member_decl(heap, &d.decl, Some(&d.body))).collect()));
        tops.push(n("Class", c.loc, kids));
      }
    }
  }
  tops
}

/// Document geometry: byte length of every line (split on '\n'; a '\r' stays part of its line).
struct Doc<'a> {
  lines: Vec<&'a str>,
}

impl<'a> Doc<'a> {
  fn new(text: &'a str) -> Doc<'a> {
    Doc { lines: text.split('\n').collect() }
  }
  fn inside(&self, p: Position) -> bool {
    (p.0 as usize) < self.lines.len() && (p.1 as usize) <= self.lines[p.0 as usize].len()
  }
  /// text of a single-line location, by BYTE columns
  fn slice(&self, l: &Location) -> Option<&'a str> {
    if l.start.0 != l.end.0 || !self.inside(l.start) || !self.inside(l.end) || l.start.1 > l.end.1 {
      return None;
    }
    self.lines[l.start.0 as usize].get(l.start.1 as usize..l.end.1 as usize)
  }
}

struct Walk<'a> {
  doc: Doc<'a>,
  module: ModuleReference,
  viol: Vec<Value>,
  nodes: usize,
  ids: usize,
}

fn disjoint_before(a: &Location, b: &Location) -> bool {
  a.end <= b.start
}

impl<'a> Walk<'a> {
  fn bad(&mut self, what: &str, tag: &str, l: &Location, extra: Value) {
    if self.viol.len() < 20 {
      self.viol.push(json!({"what": what, "node": tag, "loc": loc4(l), "extra": extra}));
    }
  }

  /// Children with a location of their own, grouping nodes flattened.
  fn located_kids<'b>(node: &'b N, out: &mut Vec<&'b N>) {
    for k in &node.kids {
      if k.loc.is_some() {
        out.push(k);
      } else {
        Self::located_kids(k, out);
      }
    }
  }

  fn visit(&mut self, node: &N) {
    let mut kids = Vec::new();
    Self::located_kids(node, &mut kids);
    if let Some(l) = &node.loc {
      self.nodes += 1;
      if l.module_reference != self.module {
        self.bad("location in another module", node.tag, l, Value::Null);
      }
      if !(self.doc.inside(l.start) && self.doc.inside(l.end)) {
        self.bad("location outside the document", node.tag, l, json!({"lines": self.doc.lines.len()}));
      }
      if l.start > l.end {
        self.bad("start after end", node.tag, l, Value::Null);
      }
      if let Some(name) = &node.name {
        self.ids += 1;
        match self.doc.slice(l) {
          Some(s) if s == name => {}
          other => self.bad("location does not spell the name", node.tag, l, json!({"name": name, "slice": other})),
        }
      }
      for k in &kids {
        let kl = k.loc.as_ref().unwrap();
        if !l.contains(kl) {
          self.bad("parent does not enclose child", node.tag, l, json!({"child": k.tag, "child_loc": loc4(kl)}));
        }
      }
    }
    // siblings: pairwise disjoint; (source order is checked for the same list)
    let mut sorted: Vec<&N> = kids.clone();
    sorted.sort_by_key(|k| (k.loc.unwrap().start, k.loc.unwrap().end));
    for w in sorted.windows(2) {
      let (a, b) = (w[0].loc.as_ref().unwrap(), w[1].loc.as_ref().unwrap());
      if !disjoint_before(a, b) {
        self.bad("siblings overlap", node.tag, a, json!({"a": w[0].tag, "b": w[1].tag, "b_loc": loc4(b)}));
      }
    }
    for w in kids.windows(2) {
      let (a, b) = (w[0].loc.as_ref().unwrap(), w[1].loc.as_ref().unwrap());
      if a.start > b.start {
        self.bad("siblings out of source order", node.tag, a, json!({"a": w[0].tag, "b": w[1].tag, "b_loc": loc4(b)}));
      }
    }
    for k in &node.kids {
      self.visit_any(k);
    }
  }

  fn visit_any(&mut self, node: &N) {
    if node.loc.is_some() {
      self.visit(node);
    } else {
      for k in &node.kids {
        self.visit_any(k);
      }
    }
  }
}

fn collect_id_positions(node: &N, out: &mut Vec<(Position, String)>) {
  if let (Some(l), Some(name)) = (&node.loc, &node.name) {
    if node.tag == "Id" {
      out.push((l.start, name.clone()));
    }
  }
  for k in &node.kids {
    collect_id_positions(k, out);
  }
}

fn ast_locs_job(job: &Value) -> Value {
  let mut heap = Heap::new();
  let mut texts: BTreeMap<String, (ModuleReference, String)> = BTreeMap::new();
  for (nm, t) in job["sources"].as_object().unwrap() {
    let m = mod_ref(&mut heap, nm);
    texts.insert(nm.clone(), (m, t.as_str().unwrap().to_string()));
  }
  let mut viol: Vec<Value> = Vec::new();
  let mut nodes = 0;
  let mut ids = 0;
  let mut syntax_errors = 0;
  let mut diag = 0;
  let mut id_positions: BTreeMap<String, Vec<(Position, String)>> = BTreeMap::new();
  for (nm, (m, text)) in &texts {
    let mut es = ErrorSet::new();
    let parsed = catch_unwind(AssertUnwindSafe(|| samlang_parser::parse_source_module_from_text(text, *m, &mut heap, &mut es)));
    let module = match parsed {
      Ok(x) => x,
      Err(e) => {
        viol.push(json!({"what": "parser panicked", "module": nm, "msg": panic_msg(e)}));
        continue;
      }
    };
    syntax_errors += es.errors().len();
    let tops = module_tree(&heap, &module);
    let root = N { tag: "Module", loc: None, name: None, kids: tops };
    let mut w = Walk { doc: Doc::new(text), module: *m, viol: vec![], nodes: 0, ids: 0 };
    // the toplevel list is a sibling list too
    w.visit(&root);
    nodes += w.nodes;
    ids += w.ids;
    for mut v in w.viol {
      v["module"] = json!(nm);
      viol.push(v);
    }
    let mut ps = Vec::new();
    collect_id_positions(&root, &mut ps);
    id_positions.insert(nm.clone(), ps);
    // diagnostics of the parser
    let doc = Doc::new(text);
    for e in es.errors() {
      diag += 1;
      let l = &e.location;
      if !(doc.inside(l.start) && doc.inside(l.end)) || l.start > l.end {
        viol.push(json!({"what": "diagnostic location outside the document or inverted", "module": nm, "loc": loc4(l)}));
      }
    }
  }
  // whole-program diagnostics and services
  let mut services = json!({});
  if job["services"].as_bool().unwrap_or(false) {
    let mut sources: HashMap<ModuleReference, String> = HashMap::new();
    if job["with_std"].as_bool().unwrap_or(true) {
      for (k, v) in samlang_parser::builtin_std_raw_sources(&mut heap) {
        sources.insert(k, v);
      }
    }
    for (_, (m, t)) in &texts {
      sources.insert(*m, t.clone());
    }
    let by_ref: HashMap<ModuleReference, String> = sources.clone();
    match catch_unwind(AssertUnwindSafe(|| samlang_services::server_state::ServerState::new(heap, false, sources))) {
      Err(e) => viol.push(json!({"what": "ServerState::new panicked", "msg": panic_msg(e)})),
      Ok(state) => {
        let inside = |l: &Location| -> bool {
          match by_ref.get(&l.module_reference) {
            None => false,
            Some(t) => {
              let d = Doc::new(t);
              d.inside(l.start) && d.inside(l.end) && l.start <= l.end
            }
          }
        };
        let (mut n_diag, mut n_def, mut n_refs, mut n_fold, mut n_edits) = (0, 0, 0, 0, 0);
        for (nm, (m, text)) in &texts {
          for e in state.get_errors(m) {
            n_diag += 1;
            if !inside(&e.location) {
              viol.push(json!({"what": "diagnostic location outside its document or inverted", "module": nm, "loc": loc4(&e.location)}));
            }
            let ide = e.to_ide_format(&state.heap, &state.string_sources);
            for r in &ide.reference_locs {
              if !inside(r) {
                viol.push(json!({"what": "diagnostic reference location outside its document or inverted", "module": nm, "loc": loc4(r)}));
              }
            }
            // edit ranges of the quick fixes offered at this diagnostic
            match catch_unwind(AssertUnwindSafe(|| samlang_services::rewrite::code_actions(&state, e.location))) {
              Err(p) => viol.push(json!({"what": "code_actions panicked", "module": nm, "loc": loc4(&e.location), "msg": panic_msg(p)})),
              Ok(actions) => {
                for a in actions {
                  let samlang_services::rewrite::CodeAction::Quickfix { title: _, edits } = a;
                  let mut sorted: Vec<Location> = edits.iter().map(|(l, _)| *l).collect();
                  sorted.sort();
                  for l in &sorted {
                    n_edits += 1;
                    if !inside(l) || l.module_reference != *m {
                      viol.push(json!({"what": "edit range outside the document or inverted", "module": nm, "loc": loc4(l)}));
                    }
                  }
                  for w in sorted.windows(2) {
                    if !(w[0].end <= w[1].start) {
                      viol.push(json!({"what": "edit ranges of one quick fix overlap", "module": nm, "loc": loc4(&w[0]), "other": loc4(&w[1])}));
                    }
                  }
                }
              }
            }
          }
          // folding ranges
          match catch_unwind(AssertUnwindSafe(|| samlang_services::query::folding_ranges(&state, m))) {
            Err(e) => viol.push(json!({"what": "folding_ranges panicked", "module": nm, "msg": panic_msg(e)})),
            Ok(Some(rs)) => {
              for r in &rs {
                n_fold += 1;
                if !inside(r) || r.module_reference != *m {
                  viol.push(json!({"what": "folding range outside the document or inverted", "module": nm, "loc": loc4(r)}));
                }
              }
              // member ranges nest in their toplevel's range or are disjoint from it
              for a in &rs {
                for b in &rs {
                  if a != b && !(a.contains(b) || b.contains(a) || a.end <= b.start || b.end <= a.start) {
                    viol.push(json!({"what": "folding ranges cross", "module": nm, "loc": loc4(a), "other": loc4(b)}));
                  }
                }
              }
            }
            Ok(None) => {}
          }
          // definition / references at every identifier
          let doc = Doc::new(text);
          let spell = |l: &Location| -> Option<String> {
            let t = by_ref.get(&l.module_reference)?;
            Doc::new(t).slice(l).map(|s| s.to_string())
          };
          let _ = &doc;
          for (p, name) in id_positions.get(nm).map(|v| v.as_slice()).unwrap_or(&[]) {
            match catch_unwind(AssertUnwindSafe(|| samlang_services::query::definition_location(&state, m, *p))) {
              Err(e) => viol.push(json!({"what": "definition_location panicked", "module": nm, "pos": [p.0, p.1], "msg": panic_msg(e)})),
              Ok(Some(l)) => {
                n_def += 1;
                if !inside(&l) {
                  viol.push(json!({"what": "definition location outside its document or inverted", "module": nm, "pos": [p.0, p.1], "loc": loc4(&l)}));
                }
              }
              Ok(None) => {}
            }
            match catch_unwind(AssertUnwindSafe(|| samlang_services::query::all_references(&state, m, *p))) {
              Err(e) => viol.push(json!({"what": "all_references panicked", "module": nm, "pos": [p.0, p.1], "msg": panic_msg(e)})),
              Ok(ls) => {
                for l in &ls {
                  n_refs += 1;
                  if !inside(l) {
                    viol.push(json!({"what": "reference location outside its document or inverted", "module": nm, "pos": [p.0, p.1], "loc": loc4(l)}));
                  } else if name != "this" && spell(l).as_deref() != Some(name.as_str()) {
                    // (`this` is defined by the enclosing member: its "definition" is a region)
                    viol.push(json!({"what": "reference location does not spell the queried name", "module": nm, "pos": [p.0, p.1],
                                     "loc": loc4(l), "name": name, "slice": spell(l)}));
                  }
                }
                for w in ls.windows(2) {
                  // (`this`: the definition is the enclosing region, which contains the uses)
                  if name != "this" && w[0].module_reference == w[1].module_reference && !(w[0].end <= w[1].start) {
                    viol.push(json!({"what": "reference locations overlap", "module": nm, "pos": [p.0, p.1], "loc": loc4(&w[0]), "other": loc4(&w[1])}));
                  }
                }
              }
            }
          }
        }
        services = json!({"diagnostics": n_diag, "definitions": n_def, "references": n_refs, "folding": n_fold, "edits": n_edits});
      }
    }
  }
  viol.truncate(30);
  json!({"id": job["id"], "violations": viol, "nodes": nodes, "ids": ids, "parser_diagnostics": diag,
         "syntax_errors": syntax_errors, "services": services})
}

fn ast_locs_main() {
  let stdin = std::io::stdin();
  let lines: Vec<String> = stdin.lock().lines().map(|l| l.unwrap()).filter(|l| !l.trim().is_empty()).collect();
  // run on a big-stack thread: deep nesting is part of the input space
  let h = std::thread::Builder::new()
    .stack_size(64 * 1024 * 1024)
    .spawn(move || {
      let out = std::io::stdout();
      let mut out = out.lock();
      for line in lines {
        let job: Value = serde_json::from_str(&line).unwrap();
        let r = match catch_unwind(AssertUnwindSafe(|| ast_locs_job(&job))) {
          Ok(v) => v,
          Err(e) => json!({"id": job["id"], "violations": [{"what": "harness walker panicked", "msg": panic_msg(e)}]}),
        };
        writeln!(out, "{}", r).unwrap();
      }
    })
    .unwrap();
  h.join().unwrap();
}

pub fn main(args: &[String]) {
  match args.first().map(|s| s.as_str()) {
    Some("lex") => lex_main(),
    Some("loc") => loc_main(),
    Some("loc-grid") => loc_grid_main(&args[1..]),
    Some("monitor-batch") => monitor_batch_main(),
    Some("monitor") => monitor_main(&args[1..]),
    Some("ast-locs") => ast_locs_main(),
    _ => {
      eprintln!("usage: vh lex-run lex|loc|monitor-batch|monitor N|ast-locs");
      std::process::exit(2);
    }
  }
}
