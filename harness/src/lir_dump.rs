//! `vh lir-dump` — layer B of the loop-lowering slice of C01 (coq/theories/C01loop): prints every MIR
//! `While` of a compiled program next to the LIR statement that `samlang_compiler::compile_mir_to_lir`
//! (lir_lowering.rs, `lower_stmt`) produced for it, so that the Gallina `lower_stmt` can be run on the
//! MIR loop and compared with the real LIR loop inside coqc (checks/c01_loop.py).
//!
//! One JSON job per line on stdin, one JSON result per line:
//!   {"id":.., "sources": {"Mod": text, ..}, "entry": "Mod", "opt": bool (default true)}
//! Front end + `compile_sources_to_mir` as in `vh mir-run`; with "opt" the MIR is optimised with
//! `ALL_ENABLED_CONFIGURATION` exactly as `compile_sources` does (the tail-recursion rewrite that makes the
//! loops is part of `compile_sources_to_mir`; the optimiser reshapes, nests and creates loops).  The whole
//! `mir::Sources` is then lowered by the public `compile_mir_to_lir` — no hook — and the functions are
//! matched by name.  Result:
//!   {"id":.., "functions": n, "loops": [ L .. ], "eliminated": k}
//!   L = {"function": name, "index": k, "mir": S, "lir": S, "outside": reason|null,
//!        "cast_types": [{"loop_variable", "variable_type", "temporary", "cast_type", "same"}]}
//! The k-th outermost `While` of the MIR function body (pre-order, through IfElse / SingleIf) is paired with
//! the k-th outermost `While` of the LIR function body; nested loops are inside their parent's term.
//! Encoding (shared by MIR and LIR; names are the PStr texts, types are erased):
//!   E = ["i", int] | ["v", name] | ["o", text]   (Int31Literal / StringName / FnName: a constant)
//!   S = ["bin", x, "PLUS", E, E] | ["cast", x, E] (Cast, LateInitAssignment)
//!     | ["op", x|null, code, [E..]]  (Not, IsPointer, IndexedAccess, StructInit, LateInitDeclaration, Call of a
//!                                     named function that draws no temporary: copied one to one)
//!     | ["if", E, [S..], [S..], [[x,E,E]..]] | ["sif", E, bool, [S..]] | ["brk", E]
//!     | ["while", [[x,E,E]..], [S..], x|null]
//!     | ["out", reason]  (closure call, ClosureInit, Call that draws a temporary: outside the fragment)
//! "cast_types": for every loop variable of the LIR loop (nested ones too) whose loop value is a temporary
//! assigned by a trailing `Cast` of the body: the declared type of the loop variable and the type of the cast.
use crate::front::{load_sources, mod_ref, panic_msg};
use samlang_ast::hir::BinaryOperator as Op;
use samlang_ast::{lir, mir};
use samlang_heap::{Heap, PStr};
use serde_json::{Value, json};
use std::collections::HashMap;
use std::io::BufRead;
use std::panic::{AssertUnwindSafe, catch_unwind};

const OPS: [(&str, Op); 16] = [
  ("MUL", Op::MUL), ("DIV", Op::DIV), ("MOD", Op::MOD), ("PLUS", Op::PLUS), ("MINUS", Op::MINUS), ("LAND", Op::LAND),
  ("LOR", Op::LOR), ("SHL", Op::SHL), ("SHR", Op::SHR), ("XOR", Op::XOR), ("LT", Op::LT), ("LE", Op::LE),
  ("GT", Op::GT), ("GE", Op::GE), ("EQ", Op::EQ), ("NE", Op::NE),
];

fn op_name(op: Op) -> &'static str {
  OPS.iter().find(|(_, o)| *o == op).map(|(n, _)| *n).unwrap()
}

struct Cx<'a> {
  heap: &'a Heap,
  table: &'a mir::SymbolTable,
}

impl Cx<'_> {
  fn n(&self, p: PStr) -> Value {
    json!(p.as_str(self.heap))
  }

  fn fname(&self, f: &mir::FunctionName) -> String {
    f.encoded_for_test(self.heap, self.table)
  }

  // ---------------------------------------------------------------- MIR
  fn mexpr(&self, e: &mir::Expression) -> Value {
    match e {
      mir::Expression::Int32Literal(i) => json!(["i", i]),
      mir::Expression::Int31Literal(i) => json!(["o", format!("i31:{i}")]),
      mir::Expression::StringName(n) => json!(["o", format!("str:{}", n.as_str(self.heap))]),
      mir::Expression::Variable(v) => json!(["v", self.n(v.name)]),
    }
  }

  fn mstmts(&self, ss: &[mir::Statement]) -> Value {
    Value::Array(ss.iter().map(|s| self.mstmt(s)).collect())
  }

  fn mstmt(&self, s: &mir::Statement) -> Value {
    use mir::Statement as S;
    match s {
      S::Binary(mir::Binary { name, operator, e1, e2 }) => {
        json!(["bin", self.n(*name), op_name(*operator), self.mexpr(e1), self.mexpr(e2)])
      }
      S::Cast { name, type_: _, assigned_expression } => json!(["cast", self.n(*name), self.mexpr(assigned_expression)]),
      S::LateInitAssignment { name, assigned_expression } => {
        json!(["cast", self.n(*name), self.mexpr(assigned_expression)])
      }
      S::LateInitDeclaration { name, type_: _ } => json!(["op", self.n(*name), "decl", []]),
      S::Not { name, operand } => json!(["op", self.n(*name), "not", [self.mexpr(operand)]]),
      S::IsPointer { name, pointer_type: _, operand } => json!(["op", self.n(*name), "isptr", [self.mexpr(operand)]]),
      S::IndexedAccess { name, type_: _, pointer_expression, index } => {
        json!(["op", self.n(*name), format!("idx:{index}"), [self.mexpr(pointer_expression)]])
      }
      S::StructInit { struct_variable_name, type_name: _, expression_list } => {
        let args: Vec<Value> = expression_list.iter().map(|e| self.mexpr(e)).collect();
        json!(["op", self.n(*struct_variable_name), format!("struct:{}", expression_list.len()), args])
      }
      S::ClosureInit { .. } => json!(["out", "closure-init"]),
      S::Call { callee, arguments, return_type, return_collector } => match callee {
        mir::Callee::Variable(_) => json!(["out", "closure-call"]),
        mir::Callee::FunctionName(f) => {
          // lir_lowering draws a temporary for a discarded result of reference type
          if return_collector.is_none() && return_type.as_id().is_some() {
            return json!(["out", "call-draws-temporary"]);
          }
          let args: Vec<Value> = arguments.iter().map(|e| self.mexpr(e)).collect();
          json!(["op", return_collector.map(|c| self.n(c)), format!("call:{}", self.fname(&f.name)), args])
        }
      },
      S::IfElse { condition, s1, s2, final_assignments } => {
        let fas: Vec<Value> = final_assignments
          .iter()
          .map(|fa| json!([self.n(fa.name), self.mexpr(&fa.e1), self.mexpr(&fa.e2)]))
          .collect();
        json!(["if", self.mexpr(condition), self.mstmts(s1), self.mstmts(s2), fas])
      }
      S::SingleIf { condition, invert_condition, statements } => {
        json!(["sif", self.mexpr(condition), invert_condition, self.mstmts(statements)])
      }
      S::Break(e) => json!(["brk", self.mexpr(e)]),
      S::While { loop_variables, statements, break_collector } => {
        let lvs: Vec<Value> = loop_variables
          .iter()
          .map(|v| json!([self.n(v.name), self.mexpr(&v.initial_value), self.mexpr(&v.loop_value)]))
          .collect();
        json!(["while", lvs, self.mstmts(statements), break_collector.map(|c| self.n(c.name))])
      }
    }
  }

  // ---------------------------------------------------------------- LIR
  fn lexpr(&self, e: &lir::Expression) -> Value {
    match e {
      lir::Expression::Int32Literal(i) => json!(["i", i]),
      lir::Expression::Int31Literal(i) => json!(["o", format!("i31:{i}")]),
      lir::Expression::StringName(n) => json!(["o", format!("str:{}", n.as_str(self.heap))]),
      lir::Expression::Variable(n, _) => json!(["v", self.n(*n)]),
      lir::Expression::FnName(f, _) => json!(["o", format!("fn:{}", self.fname(f))]),
    }
  }

  fn lstmts(&self, ss: &[lir::Statement]) -> Value {
    Value::Array(ss.iter().map(|s| self.lstmt(s)).collect())
  }

  fn lstmt(&self, s: &lir::Statement) -> Value {
    use lir::Statement as S;
    match s {
      S::Binary { name, operator, e1, e2 } => {
        json!(["bin", self.n(*name), op_name(*operator), self.lexpr(e1), self.lexpr(e2)])
      }
      S::Cast { name, type_: _, assigned_expression } => json!(["cast", self.n(*name), self.lexpr(assigned_expression)]),
      S::LateInitAssignment { name, assigned_expression } => {
        json!(["cast", self.n(*name), self.lexpr(assigned_expression)])
      }
      S::LateInitDeclaration { name, type_: _ } => json!(["op", self.n(*name), "decl", []]),
      S::Not { name, operand } => json!(["op", self.n(*name), "not", [self.lexpr(operand)]]),
      S::IsPointer { name, pointer_type: _, operand } => json!(["op", self.n(*name), "isptr", [self.lexpr(operand)]]),
      S::IndexedAccess { name, type_: _, pointer_expression, index } => {
        json!(["op", self.n(*name), format!("idx:{index}"), [self.lexpr(pointer_expression)]])
      }
      S::StructInit { struct_variable_name, type_: _, expression_list } => {
        let args: Vec<Value> = expression_list.iter().map(|e| self.lexpr(e)).collect();
        json!(["op", self.n(*struct_variable_name), format!("struct:{}", expression_list.len()), args])
      }
      S::Call { callee, arguments, return_type: _, return_collector } => match callee {
        lir::Expression::FnName(f, _) => {
          let args: Vec<Value> = arguments.iter().map(|e| self.lexpr(e)).collect();
          json!(["op", return_collector.map(|c| self.n(c)), format!("call:{}", self.fname(f)), args])
        }
        _ => json!(["out", "closure-call"]),
      },
      S::IfElse { condition, s1, s2, final_assignments } => {
        let fas: Vec<Value> =
          final_assignments.iter().map(|(n, _, e1, e2)| json!([self.n(*n), self.lexpr(e1), self.lexpr(e2)])).collect();
        json!(["if", self.lexpr(condition), self.lstmts(s1), self.lstmts(s2), fas])
      }
      S::SingleIf { condition, invert_condition, statements } => {
        json!(["sif", self.lexpr(condition), invert_condition, self.lstmts(statements)])
      }
      S::Break(e) => json!(["brk", self.lexpr(e)]),
      S::While { loop_variables, statements, break_collector } => {
        let lvs: Vec<Value> = loop_variables
          .iter()
          .map(|v| json!([self.n(v.name), self.lexpr(&v.initial_value), self.lexpr(&v.loop_value)]))
          .collect();
        json!(["while", lvs, self.lstmts(statements), break_collector.as_ref().map(|(c, _)| self.n(*c))])
      }
    }
  }

  fn ltype(&self, t: &lir::Type) -> String {
    let mut s = String::new();
    t.pretty_print(&mut s, self.heap, self.table);
    s
  }

  /// loop variables (of this loop and the nested ones) whose loop value is a temporary assigned by a `Cast`
  /// directly in the body: declared type of the variable against the type of the cast
  fn cast_types(&self, s: &lir::Statement, out: &mut Vec<Value>) {
    use lir::Statement as S;
    match s {
      S::While { loop_variables, statements, break_collector: _ } => {
        for v in loop_variables {
          if let lir::Expression::Variable(t, _) = &v.loop_value {
            for st in statements.iter().rev() {
              if let S::Cast { name, type_, assigned_expression: _ } = st {
                if name == t {
                  out.push(json!({
                    "loop_variable": self.n(v.name), "variable_type": self.ltype(&v.type_),
                    "temporary": self.n(*t), "cast_type": self.ltype(type_),
                    "same": v.type_.is_the_same_type(type_),
                  }));
                  break;
                }
              } else {
                break;
              }
            }
          }
        }
        for st in statements {
          self.cast_types(st, out);
        }
      }
      S::IfElse { s1, s2, .. } => {
        for st in s1.iter().chain(s2) {
          self.cast_types(st, out);
        }
      }
      S::SingleIf { statements, .. } => {
        for st in statements {
          self.cast_types(st, out);
        }
      }
      _ => {}
    }
  }
}

fn outside(v: &Value) -> Option<String> {
  match v {
    Value::Array(a) => {
      if a.len() == 2 && a[0] == "out" {
        return a[1].as_str().map(|s| s.to_string());
      }
      a.iter().find_map(outside)
    }
    _ => None,
  }
}

fn mir_loops<'a>(ss: &'a [mir::Statement], out: &mut Vec<&'a mir::Statement>) {
  for s in ss {
    match s {
      mir::Statement::While { .. } => out.push(s),
      mir::Statement::IfElse { s1, s2, .. } => {
        mir_loops(s1, out);
        mir_loops(s2, out);
      }
      mir::Statement::SingleIf { statements, .. } => mir_loops(statements, out),
      _ => {}
    }
  }
}

fn lir_loops<'a>(ss: &'a [lir::Statement], out: &mut Vec<&'a lir::Statement>) {
  for s in ss {
    match s {
      lir::Statement::While { .. } => out.push(s),
      lir::Statement::IfElse { s1, s2, .. } => {
        lir_loops(s1, out);
        lir_loops(s2, out);
      }
      lir::Statement::SingleIf { statements, .. } => lir_loops(statements, out),
      _ => {}
    }
  }
}

fn dump(job: &Value) -> Value {
  let id = job["id"].clone();
  let mut heap = Heap::new();
  let texts = load_sources(&mut heap, job);
  let entry = mod_ref(&mut heap, job["entry"].as_str().unwrap_or(""));
  let lowered = catch_unwind(AssertUnwindSafe(|| {
    let mut error_set = samlang_errors::ErrorSet::new();
    let mut parsed = HashMap::new();
    for (m, text) in &texts {
      parsed.insert(*m, samlang_parser::parse_source_module_from_text(text, *m, &mut heap, &mut error_set));
    }
    let checked = samlang_checker::type_check_sources(&parsed, &mut error_set).0;
    if error_set.has_errors() || !parsed.contains_key(&entry) {
      return None;
    }
    Some(samlang_compiler::compile_sources_to_mir(&mut heap, &checked))
  }));
  let unoptimized = match lowered {
    Ok(Some(s)) => s,
    Ok(None) => return json!({"id": id, "rejected": true}),
    Err(p) => return json!({"id": id, "lowering_panic": panic_msg(p)}),
  };
  let sources = if job["opt"].as_bool().unwrap_or(true) {
    match catch_unwind(AssertUnwindSafe(|| {
      samlang_optimization::optimize_sources(&mut heap, unoptimized, &samlang_optimization::ALL_ENABLED_CONFIGURATION)
    })) {
      Ok(s) => s,
      Err(p) => return json!({"id": id, "optimizer_panic": panic_msg(p)}),
    }
  } else {
    unoptimized
  };
  let mir_functions: Vec<mir::Function> = sources.functions.clone();
  let lir_sources = match catch_unwind(AssertUnwindSafe(|| samlang_compiler::compile_mir_to_lir(&mut heap, sources))) {
    Ok(s) => s,
    Err(p) => return json!({"id": id, "lir_lowering_panic": panic_msg(p)}),
  };
  let by_name: HashMap<mir::FunctionName, &lir::Function> = lir_sources.functions.iter().map(|f| (f.name, f)).collect();
  let cx = Cx { heap: &heap, table: &lir_sources.symbol_table };
  let mut loops = Vec::new();
  let mut eliminated = 0usize;
  for mf in &mir_functions {
    let Some(lf) = by_name.get(&mf.name) else {
      eliminated += 1;
      continue;
    };
    let fname = catch_unwind(AssertUnwindSafe(|| cx.fname(&mf.name))).unwrap_or_else(|_| "<fn>".to_string());
    let (mut ml, mut ll) = (Vec::new(), Vec::new());
    mir_loops(&mf.body, &mut ml);
    lir_loops(&lf.body, &mut ll);
    if ml.len() != ll.len() {
      loops.push(json!({"function": fname, "index": 0, "outside": null, "mir": null, "lir": null,
                        "count_mismatch": [ml.len(), ll.len()], "cast_types": []}));
      continue;
    }
    for (k, (m, l)) in ml.iter().zip(ll.iter()).enumerate() {
      let r = catch_unwind(AssertUnwindSafe(|| {
        let mv = cx.mstmt(m);
        let lv = cx.lstmt(l);
        let mut ct = Vec::new();
        cx.cast_types(l, &mut ct);
        (mv, lv, ct)
      }));
      match r {
        Ok((mv, lv, ct)) => {
          let out = outside(&mv);
          loops.push(json!({"function": fname, "index": k, "outside": out, "mir": mv, "lir": lv, "cast_types": ct}));
        }
        Err(p) => loops.push(json!({"function": fname, "index": k, "outside": format!("harness: {}", panic_msg(p)),
                                     "mir": null, "lir": null, "cast_types": []})),
      }
    }
  }
  json!({"id": id, "functions": mir_functions.len(), "eliminated": eliminated, "loops": loops})
}

pub fn main(_args: &[String]) {
  let stdin = std::io::stdin();
  for line in stdin.lock().lines() {
    let Ok(line) = line else { break };
    if line.trim().is_empty() {
      continue;
    }
    let result = match serde_json::from_str::<Value>(&line) {
      Ok(job) => catch_unwind(AssertUnwindSafe(|| dump(&job)))
        .unwrap_or_else(|p| json!({"id": job["id"], "harness_panic": panic_msg(p)})),
      Err(e) => json!({"error": format!("bad job: {e}")}),
    };
    println!("{result}");
  }
}
