//! C11: edit histories interleaved with every query kind at many positions on a real ServerState.
//! Every request runs under catch_unwind: a panic (e.g. "Dereferencing deallocated string") is the failure.
//! stdin: one JSON history per line {"id","init":{mod:text},"ops":[...],"seed":n,"positions":k};
//! stdout: {"id", "steps": [{"op", "queries": n, "panics": [{"query","module","pos","msg"}]}]}
use crate::front::{mod_ref, panic_msg};
use crate::rng::Rng;
use samlang_ast::{Location, Position};
use samlang_heap::{Heap, ModuleReference};
use samlang_services::server_state::ServerState;
use samlang_services::{completion, query, rewrite};
use serde_json::{Value, json};
use std::collections::{BTreeMap, BTreeSet, HashMap};
use std::io::BufRead;
use std::panic::{AssertUnwindSafe, catch_unwind};

fn lookup(heap: &Heap, name: &str) -> Option<ModuleReference> {
  heap.get_allocated_module_reference_opt(name.split('.').map(|s| s.to_string()).collect())
}

fn battery(
  state: &mut ServerState,
  names: &BTreeSet<String>,
  texts: &BTreeMap<String, String>,
  rng: &mut Rng,
  npos: usize,
  panics: &mut Vec<Value>,
) -> usize {
  let mut count = 0;
  let mut run = |what: &str, module: &str, pos: (u32, u32), f: &mut dyn FnMut()| {
    count += 1;
    if let Err(e) = catch_unwind(AssertUnwindSafe(f)) {
      if panics.len() < 20 {
        panics.push(json!({"query": what, "module": module, "pos": [pos.0, pos.1], "msg": panic_msg(e)}));
      }
    }
  };
  for n in names {
    // also modules that were deleted or never existed: requests must return nothing, not crash
    let m = match lookup(&state.heap, n) {
      Some(m) => m,
      None => continue,
    };
    run("format", n, (0, 0), &mut || {
      let _ = rewrite::format_entire_document(state, &m);
    });
    run("folding_ranges", n, (0, 0), &mut || {
      let _ = query::folding_ranges(state, &m);
    });
    run("render_errors", n, (0, 0), &mut || {
      for e in state.get_errors(&m) {
        let _ = e.to_ide_format(&state.heap, &state.string_sources);
      }
    });
    let text = texts.get(n).cloned().unwrap_or_default();
    let lines: Vec<&str> = text.split('\n').collect();
    let mut positions: Vec<(u32, u32)> = Vec::new();
    for _ in 0..npos {
      let l = rng.below(lines.len() as u64 + 3) as u32;
      let len = lines.get(l as usize).map(|s| s.len()).unwrap_or(0) as u64;
      let c = if rng.chance(1, 8) { (len + rng.below(50)) as u32 } else { rng.below(len + 1) as u32 };
      positions.push((l, c));
    }
    positions.push((u32::MAX, u32::MAX));
    positions.push((0, u32::MAX));
    // identifier occurrences: every word start gets hover and definition (the requests that follow a name into
    // another module), and a sample of them the whole battery
    let mut words: Vec<(u32, u32)> = Vec::new();
    for (li, line) in lines.iter().enumerate() {
      let b = line.as_bytes();
      for i in 0..b.len() {
        let w = |x: u8| x.is_ascii_alphanumeric() || x == b'_';
        if w(b[i]) && (i == 0 || !w(b[i - 1])) && b[i].is_ascii_alphabetic() {
          words.push((li as u32, i as u32));
        }
      }
    }
    for (l, c) in words.iter().copied() {
      let p = Position(l, c);
      run("hover", n, (l, c), &mut || {
        let _ = query::hover(state, &m, p);
      });
      run("definition", n, (l, c), &mut || {
        let _ = query::definition_location(state, &m, p);
      });
    }
    if !words.is_empty() {
      for _ in 0..npos {
        positions.push(words[rng.below(words.len() as u64) as usize]);
      }
    }
    for (l, c) in positions {
      let p = Position(l, c);
      run("hover", n, (l, c), &mut || {
        let _ = query::hover(state, &m, p);
      });
      run("definition", n, (l, c), &mut || {
        let _ = query::definition_location(state, &m, p);
      });
      run("references", n, (l, c), &mut || {
        let _ = query::all_references(state, &m, p);
      });
      run("signature_help", n, (l, c), &mut || {
        let _ = query::signature_help(state, &m, p);
      });
      run("completion", n, (l, c), &mut || {
        let _ = completion::auto_complete(state, &m, p);
      });
      run("code_actions", n, (l, c), &mut || {
        let _ = rewrite::code_actions(state, Location { module_reference: m, start: p, end: p });
      });
    }
  }
  count
}

// rename needs &mut ServerState, so it cannot share the closure above
fn rename_battery(
  state: &mut ServerState,
  names: &BTreeSet<String>,
  texts: &BTreeMap<String, String>,
  rng: &mut Rng,
  npos: usize,
  panics: &mut Vec<Value>,
) -> usize {
  let mut count = 0;
  for n in names {
    let m = match lookup(&state.heap, n) {
      Some(m) => m,
      None => continue,
    };
    let text = texts.get(n).cloned().unwrap_or_default();
    let lines: Vec<&str> = text.split('\n').collect();
    for _ in 0..npos {
      let l = rng.below(lines.len() as u64 + 2) as u32;
      let len = lines.get(l as usize).map(|s| s.len()).unwrap_or(0) as u64;
      let c = rng.below(len + 2) as u32;
      count += 1;
      let new_name = if rng.chance(1, 4) { "aVeryLongFreshNameForRenamingPurposes" } else { "fresh" };
      if let Err(e) = catch_unwind(AssertUnwindSafe(|| {
        let _ = rewrite::rename(state, &m, Position(l, c), new_name);
      })) {
        if panics.len() < 20 {
          panics.push(json!({"query": "rename", "module": n, "pos": [l, c], "msg": panic_msg(e)}));
        }
      }
    }
  }
  count
}

pub fn run_history(job: &Value) -> Value {
  let mut heap = Heap::new();
  let mut texts: BTreeMap<String, String> = BTreeMap::new();
  let mut names: BTreeSet<String> = BTreeSet::new();
  let mut sources = HashMap::new();
  for (n, t) in job["init"].as_object().unwrap() {
    sources.insert(mod_ref(&mut heap, n), t.as_str().unwrap().to_string());
    texts.insert(n.clone(), t.as_str().unwrap().to_string());
    names.insert(n.clone());
  }
  let mut rng = Rng::new(job["seed"].as_u64().unwrap_or(1));
  let npos = job["positions"].as_u64().unwrap_or(12) as usize;
  let mut state = match catch_unwind(AssertUnwindSafe(|| ServerState::new(heap, false, sources))) {
    Ok(s) => s,
    Err(e) => return json!({"id": job["id"], "steps": [], "init_panic": panic_msg(e)}),
  };
  let mut steps = Vec::new();
  let mut panics = Vec::new();
  let q = battery(&mut state, &names, &texts, &mut rng, npos, &mut panics)
    + rename_battery(&mut state, &names, &texts, &mut rng, npos / 3 + 1, &mut panics);
  steps.push(json!({"op": "init", "queries": q, "panics": panics}));
  for op in job["ops"].as_array().unwrap() {
    let kind = op["op"].as_str().unwrap();
    let r = catch_unwind(AssertUnwindSafe(|| match kind {
      "update" => {
        let mut ups = Vec::new();
        for pair in op["mods"].as_array().unwrap() {
          let n = pair[0].as_str().unwrap();
          let t = pair[1].as_str().unwrap();
          ups.push((mod_ref(&mut state.heap, n), t.to_string()));
          texts.insert(n.to_string(), t.to_string());
          names.insert(n.to_string());
        }
        state.update(ups);
      }
      "rename" => {
        let mut rs = Vec::new();
        for pair in op["pairs"].as_array().unwrap() {
          let a = pair[0].as_str().unwrap();
          let b = pair[1].as_str().unwrap();
          rs.push((mod_ref(&mut state.heap, a), mod_ref(&mut state.heap, b)));
          names.insert(a.to_string());
          names.insert(b.to_string());
          if let Some(t) = texts.remove(a) {
            texts.insert(b.to_string(), t);
          }
        }
        state.rename_module(rs);
      }
      "remove" => {
        let mut ms = Vec::new();
        for n in op["mods"].as_array().unwrap() {
          let n = n.as_str().unwrap();
          ms.push(mod_ref(&mut state.heap, n));
          names.insert(n.to_string());
          texts.remove(n);
        }
        state.remove(&ms);
      }
      other => panic!("unknown op {other}"),
    }));
    if let Err(e) = r {
      steps.push(json!({"op": kind, "queries": 0, "panics": [{"query": "edit:".to_string() + kind, "module": "", "pos": [0, 0], "msg": panic_msg(e)}]}));
      break;
    }
    let mut panics = Vec::new();
    let q = battery(&mut state, &names, &texts, &mut rng, npos, &mut panics)
      + rename_battery(&mut state, &names, &texts, &mut rng, npos / 3 + 1, &mut panics);
    steps.push(json!({"op": kind, "queries": q, "panics": panics, "heap": state.heap.stat()}));
  }
  json!({"id": job["id"], "steps": steps})
}

pub fn main(_args: &[String]) {
  let stdin = std::io::stdin();
  for line in stdin.lock().lines() {
    let line = line.unwrap();
    if line.trim().is_empty() {
      continue;
    }
    let job: Value = serde_json::from_str(&line).unwrap();
    println!("{}", run_history(&job));
  }
}
