//! vh — harness that runs /repo's implementation for the checks in /verif.
//! Every call into /repo code is wrapped in catch_unwind: a panic is an observation.
mod c12_run;
mod dep_run;
mod edits_run;
mod fmt_run;
mod front;
mod heap_run;
mod hir_dump;
mod hirexpr_dump;
mod inl_dump;
mod lex_run;
mod lir_dump;
mod lsp_run;
mod mark_run;
mod mir_dump;
mod mir_types;
mod mirsem;
mod mirstage_dump;
mod names_dump;
mod ops_table;
mod opt_kernels;
mod rewrite_run;
mod rng;
mod scope_ast;
mod scope_run;
mod server_run;
mod srcsem;
mod std_dump;
mod type_kernel;
mod wasm_validate;

fn main() {
  if std::env::var("VH_BACKTRACE").is_err() {
    std::panic::set_hook(Box::new(|_| {}));
  }
  let args: Vec<String> = std::env::args().collect();
  if args.len() < 2 {
    eprintln!("usage: vh <subcommand> ...");
    std::process::exit(2);
  }
  let rest = &args[2..];
  match args[1].as_str() {
    "c12-run" => c12_run::main(rest),
    "dep-run" => dep_run::main(rest),
    "edits-run" => edits_run::main(rest),
    "fmt-run" => fmt_run::main(rest),
    "front" => front::main(rest),
    "heap-run" => heap_run::main(rest),
    "hir-dump" => hir_dump::main(rest),
    "hirexpr-dump" => hirexpr_dump::main(rest),
    "inl-dump" => inl_dump::main(rest),
    "lex-run" => lex_run::main(rest),
    "lir-dump" => lir_dump::main(rest),
    "lsp-run" => lsp_run::main(rest),
    "mark-run" => mark_run::main(rest),
    "mir-dump" => mir_dump::main(rest),
    "mir-types" => mir_types::main(rest),
    "mir-run" => mirsem::main(rest),
    "mirstage-dump" => mirstage_dump::main(rest),
    "names-dump" => names_dump::main(rest),
    "ops-table" => ops_table::main(rest),
    "opt-kernels" => opt_kernels::main(rest),
    "rewrite-run" => rewrite_run::main(rest),
    "scope-ast" => scope_ast::main(rest),
    "scope-run" => scope_run::main(rest),
    "server-run" => server_run::main(rest),
    "src-run" => srcsem::main(rest),
    "std-dump" => std_dump::main(rest),
    "type-kernel" => type_kernel::main(rest),
    "wasm-validate" => wasm_validate::main(rest),
    other => {
      eprintln!("unknown subcommand {other}");
      std::process::exit(2);
    }
  }
}
