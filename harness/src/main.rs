//! vh — harness that runs /repo's implementation for the checks in /verif.
//! Every call into /repo code is wrapped in catch_unwind: a panic is an observation.
mod dep_run;
mod front;
mod heap_run;
mod mirsem;
mod opt_kernels;
mod rng;
mod server_run;
mod srcsem;
mod std_dump;

fn main() {
  std::panic::set_hook(Box::new(|_| {}));
  let args: Vec<String> = std::env::args().collect();
  if args.len() < 2 {
    eprintln!("usage: vh <subcommand> ...");
    std::process::exit(2);
  }
  let rest = &args[2..];
  match args[1].as_str() {
    "dep-run" => dep_run::main(rest),
    "front" => front::main(rest),
    "heap-run" => heap_run::main(rest),
    "mir-run" => mirsem::main(rest),
    "opt-kernels" => opt_kernels::main(rest),
    "server-run" => server_run::main(rest),
    "src-run" => srcsem::main(rest),
    "std-dump" => std_dump::main(rest),
    other => {
      eprintln!("unknown subcommand {other}");
      std::process::exit(2);
    }
  }
}
