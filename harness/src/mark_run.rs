//! C11 (marker coverage) — `vh mark-run`: one JSON job per line on stdin
//!   {"id": any, "sources": {"Mod.Name": text, ...}, "with_std": bool (default true)}          (at most 100 modules)
//! and one JSON result per line:
//!   {"id", "panic": null | "...",
//!    "names":   [[text, byte length], ...]            the strings of this job, interned: a name below is an index here
//!    "modules": [{"module", "errors": n, "ast": the CHECKED module (own parse + type_check_sources on the server's
//!                 heap) as a term of coq/theories/C11cov/Syntax.v, built by a walk of our own over Module<Arc<Type>>
//!                 (nothing of gc.rs is consulted),
//!                 "parsed_names": every name that occurs in the PARSED module (same walk over Module<()>),
//!                 "real": the names the real marker passed to Heap::mark for this module, in order, or null,
//!                 "ambiguous": the split of the round log had more than one solution for this module}],
//!    "order": the modules in the order they were removed, "cyclic_rest": modules left in an import cycle,
//!    "dead_after_gc": names of retained modules that are unreadable after two full collection rounds,
//!    "dead_marks": marks of strings that were already deallocated, "dead_paths": unreadable module paths,
//!    "problems": [...]}
//!
//! How the real marker is reached.  `gc::mark_module` is private; `ServerState::{update, remove}` run
//! `perform_gc_after_recheck` over ALL retained checked modules in the iteration order of a HashSet, and the hook
//! `samlang_heap::verif::take_mark_log()` returns the strings passed to `Heap::mark` by one such round.  To get the
//! log of ONE module without consulting any model: after the rounds on the full state, modules are removed one at a
//! time, importers before the modules they import (so a removal never re-checks a retained module); round k marks
//! the modules still retained.  The last round marks a single module; going backwards, the log of round k is a
//! concatenation, in unknown order, of blocks that are already known and of exactly one new block, which is cut out
//! (all decompositions are enumerated: if two give different new blocks the module is flagged "ambiguous").
//! JSON shapes (x, f, tag, s: names):
//!   ty     = 0 | ["n", x, [ty]] | ["g", x] | ["f", [ty], ty]
//!   annot  = 0 | ["i", x, [annot]] | ["g", x] | ["f", [annot], annot]
//!   pat    = ["t", [[pat, ty]]] | ["o", [[ty, f, pat]]] | ["v", ty, tag, [[pat, ty]]] | ["i", x, ty] | ["w"] | ["or", [pat]]
//!   expr   = ["lit", ty, s | null] | ["id", ty, x] | ["cid", ty, x] | ["tup", ty, [expr]]
//!          | ["fld", ty, expr, f, [annot], [ty]] | ["mth", ty, expr, f, [annot], [ty]] | ["un", ty, expr]
//!          | ["call", ty, expr, [expr]] | ["bin", ty, expr, expr] | ["if", ifelse] | ["match", ty, expr, [[pat, expr]]]
//!          | ["lam", ty, [[x, ty, annot | null]], [[x, ty]] (captured, sorted by text), expr] | ["blk", block]
//!   ifelse = ["b", ty, expr, block, else] | ["l", ty, pat, expr, block, else];  else = ["if", ifelse] | ["blk", block]
//!   block  = {"t": ty, "s": [["let", pat, annot | null, expr] | ["e", expr]], "f": expr | null}
//!   decl   = {"name": x, "tparams": [[x, [x, [annot]] | null]], "params": [[x, annot]], "ret": annot, "body": expr | null}
//!   top    = {"class": bool, "name": x, "tparams", "ext": [[x, [annot]]], "def": null | ["s", [[x, annot]]] | ["e", [[x, [annot]]]],
//!             "members": [decl]}
//!   module = {"comments": [x], "imports": [{"path": [x], "members": [x]}], "tops": [top]}
use crate::front::{load_sources, panic_msg};
use samlang_ast::source::{ClassMemberDeclaration, Literal, Module, Toplevel, TypeDefinition, annotation, expr, pattern};
use samlang_checker::type_::Type;
use samlang_errors::ErrorSet;
use samlang_heap::{Heap, ModuleReference, PStr};
use samlang_services::server_state::ServerState;
use serde_json::{Value, json};
use std::cell::RefCell;
use std::collections::{BTreeMap, BTreeSet, HashMap};
use std::io::BufRead;
use std::panic::{AssertUnwindSafe, catch_unwind};
use std::sync::Arc;

#[derive(Default)]
struct Names {
  idx: HashMap<String, u32>,
  list: Vec<String>,
  pstr: Vec<PStr>,
}

impl Names {
  fn of_text(&mut self, s: &str, p: Option<PStr>) -> u32 {
    if let Some(i) = self.idx.get(s) {
      return *i;
    }
    let i = self.list.len() as u32;
    self.idx.insert(s.to_string(), i);
    self.list.push(s.to_string());
    self.pstr.push(p.unwrap_or(PStr::EMPTY));
    i
  }
}

struct Dump<'a> {
  heap: &'a Heap,
  names: &'a RefCell<Names>,
  seen: RefCell<BTreeSet<u32>>,
}

/// the `T` of `Module<T>`: `()` for parsed modules, `Arc<Type>` for checked ones
trait TyDump: Clone {
  fn ty(&self, d: &Dump) -> Value;
}

impl TyDump for () {
  fn ty(&self, _: &Dump) -> Value {
    json!(0)
  }
}

impl TyDump for Arc<Type> {
  fn ty(&self, d: &Dump) -> Value {
    d.type_(self)
  }
}

impl<'a> Dump<'a> {
  fn n(&self, p: PStr) -> u32 {
    let i = self.names.borrow_mut().of_text(p.as_str(self.heap), Some(p));
    self.seen.borrow_mut().insert(i);
    i
  }

  fn type_(&self, t: &Type) -> Value {
    match t {
      Type::Any(_, _) | Type::Primitive(_, _) => json!(0),
      Type::Nominal(n) => json!(["n", self.n(n.id), n.type_arguments.iter().map(|a| self.type_(a)).collect::<Vec<_>>()]),
      Type::Generic(_, id) => json!(["g", self.n(*id)]),
      Type::Fn(f) => {
        json!(["f", f.argument_types.iter().map(|a| self.type_(a)).collect::<Vec<_>>(), self.type_(&f.return_type)])
      }
    }
  }

  fn annots<'b>(&self, it: impl Iterator<Item = &'b annotation::T>) -> Vec<Value> {
    it.map(|a| self.annot(a)).collect()
  }

  fn targs(&self, t: &Option<annotation::TypeArguments>) -> Vec<Value> {
    match t {
      Some(t) => self.annots(t.arguments.iter()),
      None => vec![],
    }
  }

  fn id_annot(&self, id: &annotation::Id) -> Value {
    json!([self.n(id.id.name), self.targs(&id.type_arguments)])
  }

  fn annot(&self, a: &annotation::T) -> Value {
    match a {
      annotation::T::Primitive(_, _, _) => json!(0),
      annotation::T::Id(id) => json!(["i", self.n(id.id.name), self.targs(&id.type_arguments)]),
      annotation::T::Generic(_, id) => json!(["g", self.n(id.name)]),
      annotation::T::Fn(f) => json!(["f", self.annots(f.parameters.annotations.iter()), self.annot(&f.return_type)]),
    }
  }

  fn tuple_pat<T: TyDump>(&self, t: &pattern::TuplePattern<T>) -> Vec<Value> {
    t.elements.iter().map(|e| json!([self.pat(&e.pattern), e.type_.ty(self)])).collect()
  }

  fn pat<T: TyDump>(&self, p: &pattern::MatchingPattern<T>) -> Value {
    match p {
      pattern::MatchingPattern::Tuple(t) => json!(["t", self.tuple_pat(t)]),
      pattern::MatchingPattern::Object { elements, .. } => json!([
        "o",
        elements.iter().map(|e| json!([e.type_.ty(self), self.n(e.field_name.name), self.pat(&e.pattern)])).collect::<Vec<_>>()
      ]),
      pattern::MatchingPattern::Variant(v) => json!([
        "v",
        v.type_.ty(self),
        self.n(v.tag.name),
        v.data_variables.as_ref().map(|t| self.tuple_pat(t)).unwrap_or_default()
      ]),
      pattern::MatchingPattern::Id(id, t) => json!(["i", self.n(id.name), t.ty(self)]),
      pattern::MatchingPattern::Wildcard { .. } => json!(["w"]),
      pattern::MatchingPattern::Or { patterns, .. } => json!(["or", patterns.iter().map(|q| self.pat(q)).collect::<Vec<_>>()]),
    }
  }

  fn block<T: TyDump>(&self, b: &expr::Block<T>) -> Value {
    let stmts: Vec<Value> = b
      .statements
      .iter()
      .map(|s| match s {
        expr::Statement::Declaration(d) => json!([
          "let",
          self.pat(&d.pattern),
          d.annotation.as_ref().map(|a| self.annot(a)),
          self.expr(&d.assigned_expression)
        ]),
        expr::Statement::Expression(e) => json!(["e", self.expr(e)]),
      })
      .collect();
    json!({"t": b.common.type_.ty(self), "s": stmts, "f": b.expression.as_ref().map(|e| self.expr(e))})
  }

  fn if_else<T: TyDump>(&self, e: &expr::IfElse<T>) -> Value {
    let e2 = match e.e2.as_ref() {
      expr::IfElseOrBlock::IfElse(i) => json!(["if", self.if_else(i)]),
      expr::IfElseOrBlock::Block(b) => json!(["blk", self.block(b)]),
    };
    let t = e.common.type_.ty(self);
    match e.condition.as_ref() {
      expr::IfElseCondition::Expression(g) => json!(["b", t, self.expr(g), self.block(&e.e1), e2]),
      expr::IfElseCondition::Guard(p, g) => json!(["l", t, self.pat(p), self.expr(g), self.block(&e.e1), e2]),
    }
  }

  fn exprs<T: TyDump>(&self, es: &[expr::E<T>]) -> Vec<Value> {
    es.iter().map(|x| self.expr(x)).collect()
  }

  fn expr<T: TyDump>(&self, e: &expr::E<T>) -> Value {
    match e {
      expr::E::IfElse(x) => return json!(["if", self.if_else(x)]),
      expr::E::Block(b) => return json!(["blk", self.block(b)]),
      _ => {}
    }
    let t = e.common().type_.ty(self);
    match e {
      expr::E::Literal(_, Literal::String(s)) => json!(["lit", t, self.n(*s)]),
      expr::E::Literal(_, _) => json!(["lit", t, null]),
      expr::E::LocalId(_, id) => json!(["id", t, self.n(id.name)]),
      expr::E::ClassId(_, _, id) => json!(["cid", t, self.n(id.name)]),
      expr::E::Tuple(_, es) => json!(["tup", t, self.exprs(&es.expressions)]),
      expr::E::FieldAccess(x) => json!([
        "fld",
        t,
        self.expr(&x.object),
        self.n(x.field_name.name),
        self.targs(&x.explicit_type_arguments),
        x.inferred_type_arguments.iter().map(|a| a.ty(self)).collect::<Vec<_>>()
      ]),
      expr::E::MethodAccess(x) => json!([
        "mth",
        t,
        self.expr(&x.object),
        self.n(x.method_name.name),
        self.targs(&x.explicit_type_arguments),
        x.inferred_type_arguments.iter().map(|a| a.ty(self)).collect::<Vec<_>>()
      ]),
      expr::E::Unary(x) => json!(["un", t, self.expr(&x.argument)]),
      expr::E::Call(x) => json!(["call", t, self.expr(&x.callee), self.exprs(&x.arguments.expressions)]),
      expr::E::Binary(x) => json!(["bin", t, self.expr(&x.e1), self.expr(&x.e2)]),
      expr::E::Match(x) => json!([
        "match",
        t,
        self.expr(&x.matched),
        x.cases.iter().map(|c| json!([self.pat(&c.pattern), self.expr(&c.body)])).collect::<Vec<_>>()
      ]),
      expr::E::Lambda(x) => {
        let ps: Vec<Value> = x
          .parameters
          .parameters
          .iter()
          .map(|p| json!([self.n(p.name.name), p.type_.ty(self), p.annotation.as_ref().map(|a| self.annot(a))]))
          .collect();
        // HashMap iteration order is not stable: sorted by the text of the captured name
        let mut cap: Vec<(String, Value)> = x
          .captured
          .iter()
          .map(|(k, v)| (k.as_str(self.heap).to_string(), json!([self.n(*k), v.ty(self)])))
          .collect();
        cap.sort_by(|a, b| a.0.cmp(&b.0));
        json!(["lam", t, ps, cap.into_iter().map(|c| c.1).collect::<Vec<_>>(), self.expr(&x.body)])
      }
      expr::E::IfElse(_) | expr::E::Block(_) => unreachable!(),
    }
  }

  fn tparams(&self, t: Option<&annotation::TypeParameters>) -> Vec<Value> {
    match t {
      None => vec![],
      Some(t) => t.parameters.iter().map(|p| json!([self.n(p.name.name), p.bound.as_ref().map(|b| self.id_annot(b))])).collect(),
    }
  }

  fn member<T: TyDump>(&self, d: &ClassMemberDeclaration, body: Option<&expr::E<T>>) -> Value {
    json!({
      "name": self.n(d.name.name),
      "tparams": self.tparams(d.type_parameters.as_ref()),
      "params": d.parameters.parameters.iter().map(|p| json!([self.n(p.name.name), self.annot(&p.annotation)])).collect::<Vec<_>>(),
      "ret": self.annot(&d.return_type),
      "body": body.map(|b| self.expr(b)),
    })
  }

  fn toplevel<T: TyDump>(&self, t: &Toplevel<T>) -> Value {
    let name = self.n(t.name().name);
    let tparams = self.tparams(t.type_parameters());
    let ext: Vec<Value> = t.extends_or_implements_nodes().iter().flat_map(|it| &it.nodes).map(|n| self.id_annot(n)).collect();
    let def = t.type_definition().map(|d| match d {
      TypeDefinition::Struct { fields, .. } => {
        json!(["s", fields.iter().map(|f| json!([self.n(f.name.name), self.annot(&f.annotation)])).collect::<Vec<_>>()])
      }
      TypeDefinition::Enum { variants, .. } => json!([
        "e",
        variants
          .iter()
          .map(|v| json!([self.n(v.name.name), self.annots(v.associated_data_types.iter().flat_map(|it| &it.annotations))]))
          .collect::<Vec<_>>()
      ]),
    });
    let members: Vec<Value> = match t {
      Toplevel::Class(c) => c.members.members.iter().map(|m| self.member(&m.decl, Some(&m.body))).collect(),
      Toplevel::Interface(i) => i.members.members.iter().map(|m| self.member::<T>(m, None)).collect(),
    };
    json!({"class": t.is_class(), "name": name, "tparams": tparams, "ext": ext, "def": def, "members": members})
  }

  fn module<T: TyDump>(&self, m: &Module<T>) -> Value {
    let comments: Vec<u32> = m.comment_store.all_comments().iter().flat_map(|it| it.iter()).map(|c| self.n(c.text)).collect();
    let imports: Vec<Value> = m
      .imports
      .iter()
      .map(|i| {
        // the parts of a module reference are permanent strings: interned as names, but not counted as "seen"
        let path: Vec<u32> = i
          .imported_module
          .get_parts(self.heap)
          .iter()
          .map(|p| self.names.borrow_mut().of_text(p.as_str(self.heap), Some(*p)))
          .collect();
        json!({"path": path, "members": i.imported_members.iter().map(|id| self.n(id.name)).collect::<Vec<_>>()})
      })
      .collect();
    json!({"comments": comments, "imports": imports, "tops": m.toplevels.iter().map(|t| self.toplevel(t)).collect::<Vec<_>>()})
  }
}

/// All ways to write `log` as a concatenation of the `known` blocks (each once, any order) and one more block; returns
/// the distinct candidates for that block as ranges (at most two are kept).
fn decompose(log: &[u32], known: &[&Vec<u32>]) -> Vec<(usize, usize)> {
  let total: usize = known.iter().map(|b| b.len()).sum();
  if total > log.len() {
    return vec![];
  }
  let ulen = log.len() - total;
  // distinct non-empty contents with multiplicities
  let mut kinds: Vec<(&Vec<u32>, usize)> = vec![];
  for b in known.iter().filter(|b| !b.is_empty()) {
    match kinds.iter_mut().find(|(c, _)| *c == *b) {
      Some((_, k)) => *k += 1,
      None => kinds.push((b, 1)),
    }
  }
  fn go(log: &[u32], pos: usize, kinds: &mut Vec<(&Vec<u32>, usize)>, ulen: usize, placed: Option<(usize, usize)>, out: &mut Vec<(usize, usize)>, steps: &mut usize) {
    *steps += 1;
    if out.len() >= 2 || *steps > 2_000_000 {
      return;
    }
    if pos == log.len() && kinds.iter().all(|(_, k)| *k == 0) {
      let r = placed.unwrap_or((pos, pos));
      if !out.iter().any(|o| log[o.0..o.1] == log[r.0..r.1]) {
        out.push(r);
      }
      return;
    }
    for i in 0..kinds.len() {
      if kinds[i].1 > 0 && log[pos..].starts_with(kinds[i].0) {
        kinds[i].1 -= 1;
        let l = kinds[i].0.len();
        go(log, pos + l, kinds, ulen, placed, out, steps);
        kinds[i].1 += 1;
      }
    }
    if placed.is_none() && ulen > 0 && pos + ulen <= log.len() {
      go(log, pos + ulen, kinds, ulen, Some((pos, pos + ulen)), out, steps);
    }
  }
  let mut out = vec![];
  let mut steps = 0;
  go(log, 0, &mut kinds, ulen, None, &mut out, &mut steps);
  out
}

pub fn run_job(job: &Value) -> Value {
  let mut out = json!({"id": job["id"], "panic": null});
  let mut problems: Vec<String> = vec![];
  let mut heap = Heap::new();
  let sources = load_sources(&mut heap, job);
  if sources.len() > 100 {
    out["panic"] = json!("more than 100 modules: one collection round would not mark them all");
    return out;
  }
  let modname: HashMap<ModuleReference, String> = sources.keys().map(|m| (*m, m.pretty_print(&heap))).collect();
  let mut state = match catch_unwind(AssertUnwindSafe(|| ServerState::new(heap, false, sources.clone()))) {
    Ok(s) => s,
    Err(e) => {
      out["panic"] = json!(format!("ServerState::new: {}", panic_msg(e)));
      return out;
    }
  };
  // our own copy of what the server retains: same heap, same texts, same front end
  let mut es = ErrorSet::new();
  let mut parsed: HashMap<ModuleReference, Module<()>> = HashMap::new();
  let front = catch_unwind(AssertUnwindSafe(|| {
    for (m, text) in &sources {
      parsed.insert(*m, samlang_parser::parse_source_module_from_text(text, *m, &mut state.heap, &mut es));
    }
    samlang_checker::type_check_sources(&parsed, &mut es).0
  }));
  let checked = match front {
    Ok(c) => c,
    Err(e) => {
      out["panic"] = json!(format!("front end: {}", panic_msg(e)));
      return out;
    }
  };
  let mut nerr: HashMap<ModuleReference, usize> = HashMap::new();
  for e in es.errors() {
    *nerr.entry(e.location.module_reference).or_insert(0) += 1;
  }
  // the modules, sorted by name; dumps
  let mut mods: Vec<ModuleReference> = sources.keys().copied().collect();
  mods.sort_by_key(|m| modname[m].clone());
  let names = RefCell::new(Names::default());
  let mut asts: Vec<Value> = vec![];
  let mut seen_checked: Vec<BTreeSet<u32>> = vec![];
  let mut seen_parsed: Vec<BTreeSet<u32>> = vec![];
  let mut paths: BTreeSet<ModuleReference> = mods.iter().copied().collect();
  for m in &mods {
    let d = Dump { heap: &state.heap, names: &names, seen: RefCell::new(BTreeSet::new()) };
    match catch_unwind(AssertUnwindSafe(|| d.module(&checked[m]))) {
      Ok(v) => asts.push(v),
      Err(e) => {
        out["panic"] = json!(format!("dump of {}: {}", modname[m], panic_msg(e)));
        return out;
      }
    }
    seen_checked.push(d.seen.into_inner());
    let d = Dump { heap: &state.heap, names: &names, seen: RefCell::new(BTreeSet::new()) };
    let _ = d.module(&parsed[m]);
    seen_parsed.push(d.seen.into_inner());
    for i in &parsed[m].imports {
      paths.insert(i.imported_module);
    }
  }
  // import graph among the job's modules (self imports do not count)
  let index: HashMap<ModuleReference, usize> = mods.iter().enumerate().map(|(i, m)| (*m, i)).collect();
  let imports_of: Vec<BTreeSet<usize>> = mods
    .iter()
    .enumerate()
    .map(|(i, m)| parsed[m].imports.iter().filter_map(|imp| index.get(&imp.imported_module).copied()).filter(|j| *j != i).collect())
    .collect();
  drop(checked);
  drop(parsed);

  // ---- the real marker ----
  let to_names = |heap: &Heap, log: Vec<PStr>, dead: &mut Vec<String>| -> Vec<u32> {
    log
      .into_iter()
      .map(|p| match catch_unwind(AssertUnwindSafe(|| p.as_str(heap).to_string())) {
        Ok(s) => names.borrow_mut().of_text(&s, Some(p)),
        Err(_) => {
          dead.push(format!("{:?}", p));
          names.borrow_mut().of_text(&format!("<deallocated {:?}>", p), Some(p))
        }
      })
      .collect()
  };
  let mut dead_marks: Vec<String> = vec![];
  let mut rounds: Vec<(BTreeSet<usize>, Vec<u32>)> = vec![];
  let mut present: BTreeSet<usize> = (0..mods.len()).collect();
  // two full rounds on the complete state (a sweep resets the marks: the second round marks again from scratch)
  let mut round0: Vec<u32> = vec![];
  for r in 0..2 {
    let _ = samlang_heap::verif::take_mark_log();
    if let Err(e) = catch_unwind(AssertUnwindSafe(|| state.update(vec![]))) {
      out["panic"] = json!(format!("update(vec![]) round {}: {}", r, panic_msg(e)));
      return out;
    }
    let log = to_names(&state.heap, samlang_heap::verif::take_mark_log(), &mut dead_marks);
    if r == 1 {
      let mut a = round0.clone();
      let mut b = log.clone();
      a.sort();
      b.sort();
      if a != b {
        problems.push("two collection rounds on the same state marked different multisets of strings".to_string());
      }
    }
    round0 = log;
  }
  rounds.push((present.clone(), round0));
  // the property itself on the real data: every string of every retained module is readable after the collections
  let mut dead_after_gc: BTreeSet<u32> = BTreeSet::new();
  {
    let nm = names.borrow();
    for seen in seen_checked.iter().chain(seen_parsed.iter()) {
      for i in seen {
        let p = nm.pstr[*i as usize];
        if catch_unwind(AssertUnwindSafe(|| p.as_str(&state.heap).len())).is_err() {
          dead_after_gc.insert(*i);
        }
      }
    }
  }
  let mut dead_paths: Vec<String> = vec![];
  for m in &paths {
    if catch_unwind(AssertUnwindSafe(|| m.pretty_print(&state.heap))).is_err() {
      dead_paths.push(format!("{:?}", m));
    }
  }
  // removal: a module nobody (still retained) imports goes first
  let mut order: Vec<usize> = vec![];
  loop {
    let next = present.iter().copied().find(|i| !present.iter().any(|j| j != i && imports_of[*j].contains(i)));
    let Some(x) = next else { break };
    if present.len() == 1 {
      order.push(x);
      break;
    }
    let _ = samlang_heap::verif::take_mark_log();
    if let Err(e) = catch_unwind(AssertUnwindSafe(|| state.remove(&[mods[x]]))) {
      problems.push(format!("remove({}) panicked: {}", modname[&mods[x]], panic_msg(e)));
      break;
    }
    order.push(x);
    present.remove(&x);
    let log = to_names(&state.heap, samlang_heap::verif::take_mark_log(), &mut dead_marks);
    rounds.push((present.clone(), log));
  }
  let cyclic_rest: Vec<usize> = if order.len() == mods.len() { vec![] } else { present.iter().copied().collect() };
  // ---- split, from the last round backwards ----
  let mut block: BTreeMap<usize, Vec<u32>> = BTreeMap::new();
  let mut ambiguous: BTreeSet<usize> = BTreeSet::new();
  if cyclic_rest.is_empty() {
    for k in (0..rounds.len()).rev() {
      let (pres, log) = &rounds[k];
      let unknown: Vec<usize> = pres.iter().copied().filter(|i| !block.contains_key(i)).collect();
      if unknown.len() != 1 {
        problems.push(format!("round {}: {} modules without a block", k, unknown.len()));
        break;
      }
      let known: Vec<&Vec<u32>> = pres.iter().filter(|i| block.contains_key(i)).map(|i| &block[i]).collect();
      let cands = decompose(log, &known);
      if cands.is_empty() {
        problems.push(format!(
          "round {}: the log ({} marks) is not a concatenation of the blocks of the {} retained modules already split off plus one block (module {})",
          k,
          log.len(),
          known.len(),
          modname[&mods[unknown[0]]]
        ));
        break;
      }
      if cands.len() > 1 {
        ambiguous.insert(unknown[0]);
      }
      block.insert(unknown[0], log[cands[0].0..cands[0].1].to_vec());
    }
  }
  let nm = names.borrow();
  out["names"] = json!(nm.list.iter().map(|s| json!([s, s.len()])).collect::<Vec<_>>());
  out["modules"] = json!(
    mods
      .iter()
      .enumerate()
      .map(|(i, m)| json!({
        "module": modname[m],
        "errors": nerr.get(m).copied().unwrap_or(0),
        "ast": asts[i],
        "parsed_names": seen_parsed[i].iter().collect::<Vec<_>>(),
        "real": block.get(&i),
        "ambiguous": ambiguous.contains(&i),
      }))
      .collect::<Vec<_>>()
  );
  out["order"] = json!(order.iter().map(|i| modname[&mods[*i]].clone()).collect::<Vec<_>>());
  out["cyclic_rest"] = json!(cyclic_rest.iter().map(|i| modname[&mods[*i]].clone()).collect::<Vec<_>>());
  out["round0_marks"] = json!(rounds[0].1.len());
  out["dead_after_gc"] = json!(dead_after_gc.iter().map(|i| nm.list[*i as usize].clone()).collect::<Vec<_>>());
  out["dead_marks"] = json!(dead_marks);
  out["dead_paths"] = json!(dead_paths);
  out["heap"] = json!(state.heap.stat());
  out["problems"] = json!(problems);
  out
}

pub fn main(_args: &[String]) {
  let stdin = std::io::stdin();
  for line in stdin.lock().lines() {
    let line = line.unwrap();
    if line.trim().is_empty() {
      continue;
    }
    let job: Value = serde_json::from_str(&line).unwrap();
    let r = match catch_unwind(AssertUnwindSafe(|| run_job(&job))) {
      Ok(v) => v,
      Err(e) => json!({"id": job["id"], "harness_panic": panic_msg(e)}),
    };
    println!("{}", r);
  }
}
