//! `vh mir-dump` — layer B of the deep C02 check (coq/theories/C02deep): prints MIR functions of the
//! fragment modelled in Gallina BEFORE and AFTER single optimizer passes, so that the Gallina model
//! of the pass can be run on the `before` and compared with the real `after` inside coqc.
//!
//! One JSON job per line on stdin, one JSON result per line.
//!
//! (1) {"id":.., "sources": {"Mod": text, ..}, "entry": "Mod", "passes": ["ccp","lvn","dce"]}
//!     Front end + lowering as in `vh mir-run`; every function is then run through the chain of passes
//!     (each pass applied to the output of the previous one, through the samlang_verif hook
//!     `samlang_optimization::verif::run_function_pass`).  Result:
//!     {"id":.., "functions": [ {"name": s, "skip": reason}
//!                            | {"name": s, "nnames": k, "versions": [F0, F1, ..], "panics": [..]} ]}
//!     F0 is the lowered function, Fi the function after the i-th pass of the chain (null after a panic).
//! (2) {"id":.., "mir": F, "pass": "ccp"}  (replay of a model witness on the real pass)
//!     builds the mir::Function denoted by F (names are numbers, printed as "V%07d" so that the PStr
//!     order is the numeric order) and returns {"id":.., "after": F' | "panic": msg}.
//!
//! Encoding F = {"params": [n..], "body": [S..], "ret": E}
//!   E = ["i", int] | ["j", int] (Int31Literal) | ["s", n] (StringName) | ["v", n] (Variable)
//!   S = ["bin", n, "PLUS", E, E] | ["not", n, E] | ["prim", n, kind, ty, idx, E]  (kind: idx|isptr|cast)
//!     | ["call", f, [E..], n|null] | ["if", E, [S..], [S..], [[n,E,E]..]] | ["sif", E, bool, [S..]]
//!     | ["brk", E] | ["while", [[n,E,E]..], [S..], n|null]
//!     | ["struct", n, ty, [E..]] | ["ldecl", n] | ["lassign", n, E]   (only with job field "fragment": 2)
//! In mode (1) a name n is the RANK of the PStr among all names of all versions of the function in the
//! order `PStr::cmp` (the order Expression::cmp uses to sort operands); types are erased (ty = an
//! interned number per job); f is an interned number per job.
//! Functions that use a construct outside the fragment are skipped with the reason.
use crate::front::{load_sources, mod_ref, panic_msg};
use samlang_ast::hir::BinaryOperator as Op;
use samlang_ast::mir::{
  Binary, Callee, Expression, Function, FunctionName, FunctionNameExpression, FunctionType, GenenalLoopVariable,
  INT_32_TYPE, IfElseFinalAssignment, Statement, SymbolTable, Type, VariableName,
};
use samlang_heap::{Heap, PStr};
use serde_json::{Value, json};
use std::collections::{BTreeSet, HashMap};
use std::io::BufRead;
use std::panic::{AssertUnwindSafe, catch_unwind};

const OPS: [(&str, Op); 16] = [
  ("MUL", Op::MUL), ("DIV", Op::DIV), ("MOD", Op::MOD), ("PLUS", Op::PLUS), ("MINUS", Op::MINUS), ("LAND", Op::LAND),
  ("LOR", Op::LOR), ("SHL", Op::SHL), ("SHR", Op::SHR), ("XOR", Op::XOR), ("LT", Op::LT), ("LE", Op::LE),
  ("GT", Op::GT), ("GE", Op::GE), ("EQ", Op::EQ), ("NE", Op::NE),
];

fn op_name(op: Op) -> &'static str {
  OPS.iter().find(|(_, o)| *o == op).map(|(n, _)| *n).unwrap()
}

// ------------------------------------------------------------------------------------------------
// fragment test + name collection
// ------------------------------------------------------------------------------------------------

/// job field "fragment": 2 = StructInit / LateInit statements are part of the fragment ("struct", "ldecl", "lassign")
static EXTENDED: std::sync::atomic::AtomicBool = std::sync::atomic::AtomicBool::new(false);

fn int_operand(e: &Expression) -> bool {
  match e {
    Expression::Int32Literal(_) => true,
    Expression::Variable(v) => v.type_ == Type::Int32,
    _ => false,
  }
}

fn names_expr(e: &Expression, out: &mut BTreeSet<PStr>) {
  match e {
    Expression::Variable(v) => {
      out.insert(v.name);
    }
    Expression::StringName(n) => {
      out.insert(*n);
    }
    _ => {}
  }
}

/// Err(reason) if the statement is outside the fragment; collects every PStr otherwise.
fn scan_stmt(s: &Statement, out: &mut BTreeSet<PStr>) -> Result<(), &'static str> {
  match s {
    Statement::Binary(Binary { name, operator: _, e1, e2 }) => {
      if !int_operand(e1) || !int_operand(e2) {
        return Err("binary-on-non-int");
      }
      out.insert(*name);
      names_expr(e1, out);
      names_expr(e2, out);
    }
    Statement::Not { name, operand } => {
      out.insert(*name);
      names_expr(operand, out);
    }
    Statement::IsPointer { name, pointer_type: _, operand } => {
      out.insert(*name);
      names_expr(operand, out);
    }
    Statement::IndexedAccess { name, type_: _, pointer_expression, index: _ } => {
      out.insert(*name);
      names_expr(pointer_expression, out);
    }
    Statement::Cast { name, type_: _, assigned_expression } => {
      out.insert(*name);
      names_expr(assigned_expression, out);
    }
    Statement::Call { callee, arguments, return_type: _, return_collector } => {
      if !matches!(callee, Callee::FunctionName(_)) {
        return Err("closure-call");
      }
      for a in arguments {
        names_expr(a, out);
      }
      if let Some(c) = return_collector {
        out.insert(*c);
      }
    }
    Statement::IfElse { condition, s1, s2, final_assignments } => {
      names_expr(condition, out);
      scan_stmts(s1, out)?;
      scan_stmts(s2, out)?;
      for fa in final_assignments {
        out.insert(fa.name);
        names_expr(&fa.e1, out);
        names_expr(&fa.e2, out);
      }
    }
    Statement::SingleIf { condition, invert_condition: _, statements } => {
      names_expr(condition, out);
      scan_stmts(statements, out)?;
    }
    Statement::Break(e) => names_expr(e, out),
    Statement::While { loop_variables, statements, break_collector } => {
      for v in loop_variables {
        out.insert(v.name);
        names_expr(&v.initial_value, out);
        names_expr(&v.loop_value, out);
      }
      scan_stmts(statements, out)?;
      if let Some(c) = break_collector {
        out.insert(c.name);
      }
    }
    Statement::StructInit { struct_variable_name, type_name: _, expression_list } => {
      if !EXTENDED.load(std::sync::atomic::Ordering::Relaxed) {
        return Err("struct-init");
      }
      out.insert(*struct_variable_name);
      for e in expression_list {
        names_expr(e, out);
      }
    }
    Statement::ClosureInit { .. } => return Err("closure-init"),
    Statement::LateInitDeclaration { name, type_: _ } => {
      if !EXTENDED.load(std::sync::atomic::Ordering::Relaxed) {
        return Err("late-init");
      }
      out.insert(*name);
    }
    Statement::LateInitAssignment { name, assigned_expression } => {
      if !EXTENDED.load(std::sync::atomic::Ordering::Relaxed) {
        return Err("late-init");
      }
      out.insert(*name);
      names_expr(assigned_expression, out);
    }
  }
  Ok(())
}

fn scan_stmts(ss: &[Statement], out: &mut BTreeSet<PStr>) -> Result<(), &'static str> {
  for s in ss {
    scan_stmt(s, out)?;
  }
  Ok(())
}

fn scan_function(f: &Function, out: &mut BTreeSet<PStr>) -> Result<(), &'static str> {
  for p in &f.parameters {
    out.insert(*p);
  }
  scan_stmts(&f.body, out)?;
  names_expr(&f.return_value, out);
  Ok(())
}

// ------------------------------------------------------------------------------------------------
// encoding
// ------------------------------------------------------------------------------------------------

struct Enc<'a> {
  name: &'a dyn Fn(PStr) -> u64,
  types: &'a mut HashMap<Type, usize>,
  fnames: &'a mut HashMap<FunctionName, usize>,
}

impl Enc<'_> {
  fn ty(&mut self, t: &Type) -> usize {
    let n = self.types.len();
    *self.types.entry(*t).or_insert(n)
  }

  fn fname(&mut self, f: &FunctionName) -> usize {
    let n = self.fnames.len();
    *self.fnames.entry(*f).or_insert(n)
  }

  fn expr(&self, e: &Expression) -> Value {
    match e {
      Expression::Int32Literal(i) => json!(["i", i]),
      Expression::Int31Literal(i) => json!(["j", i]),
      Expression::StringName(n) => json!(["s", (self.name)(*n)]),
      Expression::Variable(v) => json!(["v", (self.name)(v.name)]),
    }
  }

  fn stmts(&mut self, ss: &[Statement]) -> Value {
    Value::Array(ss.iter().map(|s| self.stmt(s)).collect())
  }

  fn stmt(&mut self, s: &Statement) -> Value {
    match s {
      Statement::Binary(Binary { name, operator, e1, e2 }) => {
        json!(["bin", (self.name)(*name), op_name(*operator), self.expr(e1), self.expr(e2)])
      }
      Statement::Not { name, operand } => json!(["not", (self.name)(*name), self.expr(operand)]),
      Statement::IsPointer { name, pointer_type, operand } => {
        let t = self.ty(&Type::Id(*pointer_type));
        json!(["prim", (self.name)(*name), "isptr", t, 0, self.expr(operand)])
      }
      Statement::IndexedAccess { name, type_, pointer_expression, index } => {
        let t = self.ty(type_);
        json!(["prim", (self.name)(*name), "idx", t, index, self.expr(pointer_expression)])
      }
      Statement::Cast { name, type_, assigned_expression } => {
        let t = self.ty(type_);
        json!(["prim", (self.name)(*name), "cast", t, 0, self.expr(assigned_expression)])
      }
      Statement::Call { callee, arguments, return_type: _, return_collector } => {
        let f = match callee {
          Callee::FunctionName(f) => self.fname(&f.name),
          Callee::Variable(_) => unreachable!(),
        };
        let args: Vec<Value> = arguments.iter().map(|a| self.expr(a)).collect();
        json!(["call", f, args, return_collector.map(|c| (self.name)(c))])
      }
      Statement::IfElse { condition, s1, s2, final_assignments } => {
        let fas: Vec<Value> = final_assignments
          .iter()
          .map(|fa| json!([(self.name)(fa.name), self.expr(&fa.e1), self.expr(&fa.e2)]))
          .collect();
        json!(["if", self.expr(condition), self.stmts(s1), self.stmts(s2), fas])
      }
      Statement::SingleIf { condition, invert_condition, statements } => {
        json!(["sif", self.expr(condition), invert_condition, self.stmts(statements)])
      }
      Statement::Break(e) => json!(["brk", self.expr(e)]),
      Statement::StructInit { struct_variable_name, type_name, expression_list } => {
        let t = self.ty(&Type::Id(*type_name));
        let es: Vec<Value> = expression_list.iter().map(|e| self.expr(e)).collect();
        json!(["struct", (self.name)(*struct_variable_name), t, es])
      }
      Statement::LateInitDeclaration { name, type_: _ } => json!(["ldecl", (self.name)(*name)]),
      Statement::LateInitAssignment { name, assigned_expression } => {
        json!(["lassign", (self.name)(*name), self.expr(assigned_expression)])
      }
      Statement::While { loop_variables, statements, break_collector } => {
        let lvs: Vec<Value> = loop_variables
          .iter()
          .map(|v| json!([(self.name)(v.name), self.expr(&v.initial_value), self.expr(&v.loop_value)]))
          .collect();
        json!(["while", lvs, self.stmts(statements), break_collector.map(|c| (self.name)(c.name))])
      }
      _ => unreachable!(),
    }
  }

  fn function(&mut self, f: &Function) -> Value {
    let params: Vec<u64> = f.parameters.iter().map(|p| (self.name)(*p)).collect();
    json!({"params": params, "body": self.stmts(&f.body), "ret": self.expr(&f.return_value)})
  }
}

/// A pass of the chain: a single pass (`verif::run_function_pass`) or "rounds:lvn", "rounds:lvn+cse", ...:
/// the real driver `optimize_function_for_rounds` with these switches (`verif::run_function_rounds`).
fn run_named(pass: &str, f: &mut Function, counter: &samlang_heap::TempPStrCounter) -> bool {
  if let Some(flags) = pass.strip_prefix("rounds") {
    samlang_optimization::verif::run_function_rounds(f, counter, flags.contains("lvn"), flags.contains("cse"), false, false);
    true
  } else {
    samlang_optimization::verif::run_function_pass(pass, f, counter)
  }
}

fn temp_id(s: &str) -> Option<u64> {
  s.strip_prefix("_t").and_then(|r| r.parse::<u64>().ok())
}

fn types_stmts(ss: &[Statement], out: &mut BTreeSet<Type>) {
  for s in ss {
    match s {
      Statement::IsPointer { pointer_type, .. } => {
        out.insert(Type::Id(*pointer_type));
      }
      Statement::IndexedAccess { type_, .. } | Statement::Cast { type_, .. } => {
        out.insert(*type_);
      }
      Statement::StructInit { type_name, .. } => {
        out.insert(Type::Id(*type_name));
      }
      Statement::IfElse { s1, s2, .. } => {
        types_stmts(s1, out);
        types_stmts(s2, out);
      }
      Statement::SingleIf { statements, .. } | Statement::While { statements, .. } => types_stmts(statements, out),
      _ => {}
    }
  }
}

// ------------------------------------------------------------------------------------------------
// mode (1): sources -> chain of passes
// ------------------------------------------------------------------------------------------------

fn dump_sources(job: &Value) -> Value {
  let id = job["id"].clone();
  EXTENDED.store(job["fragment"].as_u64() == Some(2), std::sync::atomic::Ordering::Relaxed);
  let mut heap = Heap::new();
  let texts = load_sources(&mut heap, job);
  let entry = mod_ref(&mut heap, job["entry"].as_str().unwrap_or(""));
  let lowered = catch_unwind(AssertUnwindSafe(|| {
    let mut error_set = samlang_errors::ErrorSet::new();
    let mut parsed = HashMap::new();
    for (m, text) in &texts {
      parsed.insert(*m, samlang_parser::parse_source_module_from_text(text, *m, &mut heap, &mut error_set));
    }
    let checked = samlang_checker::type_check_sources(&parsed, &mut error_set).0;
    if error_set.has_errors() || !parsed.contains_key(&entry) {
      return None;
    }
    Some(samlang_compiler::compile_sources_to_mir(&mut heap, &checked))
  }));
  let sources = match lowered {
    Ok(Some(s)) => s,
    Ok(None) => return json!({"id": id, "rejected": true}),
    Err(p) => return json!({"id": id, "lowering_panic": panic_msg(p)}),
  };
  let passes: Vec<String> = job["passes"]
    .as_array()
    .map(|a| a.iter().filter_map(|p| p.as_str().map(|s| s.to_string())).collect())
    .unwrap_or_default();
  // types are numbered in the order of `Type::cmp` (common subexpression elimination sorts by it)
  let mut all_types = BTreeSet::new();
  for f in &sources.functions {
    types_stmts(&f.body, &mut all_types);
  }
  let mut types: HashMap<Type, usize> = all_types.iter().enumerate().map(|(i, t)| (*t, i)).collect();
  // "rounds": one driver configuration or a list of them
  let rounds: Vec<String> = match &job["rounds"] {
    Value::String(s) => vec![s.clone()],
    Value::Array(a) => a.iter().filter_map(|p| p.as_str().map(|s| s.to_string())).collect(),
    _ => Vec::new(),
  };
  let mut fnames: HashMap<FunctionName, usize> = HashMap::new();
  let mut out = Vec::new();
  for f in &sources.functions {
    let fname = catch_unwind(AssertUnwindSafe(|| f.name.encoded_for_test(&heap, &sources.symbol_table)))
      .unwrap_or_else(|_| "<fn>".to_string());
    // versions
    let mut versions: Vec<Option<Function>> = vec![Some(f.clone())];
    let mut panics = Vec::new();
    let counter = heap.create_temp_counter();
    for p in &passes {
      let next = match versions.last().unwrap() {
        None => None,
        Some(prev) => {
          let mut g = prev.clone();
          match catch_unwind(AssertUnwindSafe(|| {
            if !run_named(p, &mut g, &counter) {
              panic!("unknown pass {p}");
            }
            g
          })) {
            Ok(g) => Some(g),
            Err(e) => {
              panics.push(json!({"pass": p, "msg": panic_msg(e)}));
              None
            }
          }
        }
      };
      versions.push(next);
    }
    // the real driver on the lowered function (job field "rounds": "rounds:lvn" | "rounds:lvn+cse" | ...)
    // (every run starts from the same temporary counter, so that the same pass order makes the same names)
    let mut rounds_versions: Vec<Option<Function>> = Vec::new();
    let mut rounds_counters = Vec::new();
    for r in &rounds {
      let counter_r = heap.create_temp_counter();
      let mut g = f.clone();
      rounds_versions.push(match catch_unwind(AssertUnwindSafe(|| {
        run_named(r, &mut g, &counter_r);
        g
      })) {
        Ok(g) => Some(g),
        Err(e) => {
          panics.push(json!({"pass": r, "msg": panic_msg(e)}));
          None
        }
      });
      rounds_counters.push(counter_r);
    }
    // every temporary a run allocated (also those a later pass removed again), in allocation order
    let start = temp_id(heap.create_temp_counter().alloc_temp_str().as_str(&heap)).unwrap_or(0);
    let allocated = |c: &samlang_heap::TempPStrCounter, heap: &mut Heap| -> Vec<PStr> {
      let end = temp_id(c.alloc_temp_str().as_str(heap)).unwrap_or(start);
      (start..end).map(|id| heap.alloc_string(format!("_t{id}"))).collect()
    };
    let rounds_allocated: Vec<Vec<PStr>> = rounds_counters.iter().map(|c| allocated(c, &mut heap)).collect();
    let chain_allocated: Vec<PStr> = allocated(&counter, &mut heap);
    heap.sync_temp_counter(&counter);
    for c in &rounds_counters {
      heap.sync_temp_counter(c);
    }
    let mut names = BTreeSet::new();
    let mut skip = None;
    for v in versions.iter().flatten().chain(rounds_versions.iter().flatten()) {
      if let Err(r) = scan_function(v, &mut names) {
        skip = Some(r);
        break;
      }
    }
    if let Some(r) = skip {
      out.push(json!({"name": fname, "skip": r}));
      continue;
    }
    for n in chain_allocated.iter().chain(rounds_allocated.iter().flatten()) {
      names.insert(*n);
    }
    // BTreeSet iterates in PStr::cmp order: the rank is the position
    let rank: HashMap<PStr, u64> = names.iter().enumerate().map(|(i, n)| (*n, i as u64)).collect();
    let name_of = |n: PStr| rank[&n];
    let mut enc = Enc { name: &name_of, types: &mut types, fnames: &mut fnames };
    let vs: Vec<Value> = versions.iter().map(|v| v.as_ref().map(|v| enc.function(v)).unwrap_or(Value::Null)).collect();
    let rv: Vec<Value> = rounds_versions.iter().map(|v| v.as_ref().map(|v| enc.function(v)).unwrap_or(Value::Null)).collect();
    // temporaries made by each pass, in the order in which they were allocated ("_t<id>")
    let names_of = |v: &Function| -> BTreeSet<PStr> {
      let mut s = BTreeSet::new();
      let _ = scan_function(v, &mut s);
      s
    };
    let fresh_between = |a: &Function, b: &Function| -> Vec<u64> {
      let na = names_of(a);
      let mut fresh: Vec<(u64, u64)> =
        names_of(b).iter().filter(|n| !na.contains(*n)).filter_map(|n| temp_id(n.as_str(&heap)).map(|id| (id, rank[n]))).collect();
      fresh.sort();
      fresh.into_iter().map(|(_, r)| r).collect()
    };
    let fresh: Vec<Value> = (0..passes.len())
      .map(|k| match (&versions[k], &versions[k + 1]) {
        (Some(a), Some(b)) => json!(fresh_between(a, b)),
        _ => Value::Null,
      })
      .collect();
    let rounds_fresh: Vec<Value> =
      rounds_allocated.iter().map(|a| json!(a.iter().map(|n| rank[n]).collect::<Vec<u64>>())).collect();
    out.push(json!({"name": fname, "nnames": names.len(), "versions": vs, "fresh": fresh, "rounds": rv,
                    "rounds_fresh": rounds_fresh, "panics": panics}));
  }
  json!({"id": id, "passes": passes, "functions": out})
}

// ------------------------------------------------------------------------------------------------
// mode (2): replay of a model term on the real pass
// ------------------------------------------------------------------------------------------------

struct Dec {
  heap: Heap,
  table: SymbolTable,
  types: HashMap<Type, usize>,
  type_of: Vec<Type>,
  fnames: HashMap<FunctionName, usize>,
  max_name: u64,
  struct_vars: HashMap<u64, u64>,
}

fn struct_vars_of(v: &Value, out: &mut HashMap<u64, u64>) {
  match v {
    Value::Array(a) => {
      if a.first().and_then(|x| x.as_str()) == Some("struct") {
        if let (Some(n), Some(t)) = (a.get(1).and_then(|x| x.as_u64()), a.get(2).and_then(|x| x.as_u64())) {
          out.insert(n, t);
        }
      }
      for x in a {
        struct_vars_of(x, out);
      }
    }
    Value::Object(o) => {
      for x in o.values() {
        struct_vars_of(x, out);
      }
    }
    _ => {}
  }
}

fn max_type_number(v: &Value) -> u64 {
  match v {
    Value::Array(a) => {
      let here = match a.first().and_then(|x| x.as_str()) {
        Some("prim") => a.get(3).and_then(|x| x.as_u64()).unwrap_or(0),
        Some("struct") => a.get(2).and_then(|x| x.as_u64()).unwrap_or(0),
        _ => 0,
      };
      a.iter().map(max_type_number).max().unwrap_or(0).max(here)
    }
    Value::Object(o) => o.values().map(max_type_number).max().unwrap_or(0),
    _ => 0,
  }
}

impl Dec {
  fn name(&mut self, v: &Value) -> PStr {
    let n = v.as_u64().unwrap_or(0);
    self.max_name = self.max_name.max(n);
    self.heap.alloc_string(format!("V{n:07}"))
  }

  /// type number n -> a type name id; created in increasing order of n so that `Type::cmp` is the numeric order
  fn ty(&mut self, v: &Value) -> Type {
    let n = v.as_u64().unwrap_or(0) as usize;
    while self.type_of.len() <= n {
      let k = self.type_of.len();
      let name = self.heap.alloc_string(format!("T{k}"));
      let t = Type::Id(self.table.create_type_name_for_test(name));
      self.types.insert(t, k);
      self.type_of.push(t);
    }
    self.type_of[n]
  }

  fn expr(&mut self, v: &Value) -> Expression {
    match v[0].as_str().unwrap_or("") {
      "i" => Expression::Int32Literal(v[1].as_i64().unwrap_or(0) as i32),
      "j" => Expression::Int31Literal(v[1].as_i64().unwrap_or(0) as i32),
      "s" => Expression::StringName(self.name(&v[1])),
      _ => {
        // a variable made by a StructInit of the function is typed with the struct type (the key of
        // index_access_cx is hashed with the type of the pointer variable)
        let type_ = match v[1].as_u64().and_then(|n| self.struct_vars.get(&n).copied()) {
          Some(tn) => self.ty(&json!(tn)),
          None => INT_32_TYPE,
        };
        Expression::Variable(VariableName { name: self.name(&v[1]), type_ })
      }
    }
  }

  fn stmts(&mut self, v: &Value) -> Vec<Statement> {
    v.as_array().map(|a| a.iter().map(|s| self.stmt(s)).collect()).unwrap_or_default()
  }

  fn stmt(&mut self, v: &Value) -> Statement {
    match v[0].as_str().unwrap_or("") {
      "bin" => {
        let op = OPS.iter().find(|(n, _)| Some(*n) == v[2].as_str()).map(|(_, o)| *o).unwrap_or(Op::PLUS);
        Statement::Binary(Binary { name: self.name(&v[1]), operator: op, e1: self.expr(&v[3]), e2: self.expr(&v[4]) })
      }
      "not" => Statement::Not { name: self.name(&v[1]), operand: self.expr(&v[2]) },
      "prim" => {
        let name = self.name(&v[1]);
        let e = self.expr(&v[5]);
        match v[2].as_str().unwrap_or("") {
          "idx" => Statement::IndexedAccess {
            name,
            type_: self.ty(&v[3]),
            pointer_expression: e,
            index: v[4].as_u64().unwrap_or(0) as usize,
          },
          "isptr" => {
            let t = self.ty(&v[3]);
            Statement::IsPointer { name, pointer_type: *t.as_id().unwrap(), operand: e }
          }
          _ => Statement::Cast { name, type_: self.ty(&v[3]), assigned_expression: e },
        }
      }
      "call" => {
        let n = v[1].as_u64().unwrap_or(0);
        let fname = FunctionName::new_for_test(self.heap.alloc_string(format!("f{n:05}")));
        self.fnames.insert(fname, n as usize);
        let arguments: Vec<Expression> = v[2].as_array().map(|a| a.iter().map(|e| self.expr(e)).collect()).unwrap_or_default();
        Statement::Call {
          callee: Callee::FunctionName(FunctionNameExpression {
            name: fname,
            type_: FunctionType { argument_types: vec![INT_32_TYPE; arguments.len()], return_type: Box::new(INT_32_TYPE) },
          }),
          arguments,
          return_type: INT_32_TYPE,
          return_collector: if v[3].is_null() { None } else { Some(self.name(&v[3])) },
        }
      }
      "if" => Statement::IfElse {
        condition: self.expr(&v[1]),
        s1: self.stmts(&v[2]),
        s2: self.stmts(&v[3]),
        final_assignments: v[4]
          .as_array()
          .map(|a| {
            a.iter()
              .map(|t| IfElseFinalAssignment { name: self.name(&t[0]), type_: INT_32_TYPE, e1: self.expr(&t[1]), e2: self.expr(&t[2]) })
              .collect()
          })
          .unwrap_or_default(),
      },
      "sif" => Statement::SingleIf {
        condition: self.expr(&v[1]),
        invert_condition: v[2].as_bool().unwrap_or(false),
        statements: self.stmts(&v[3]),
      },
      "brk" => Statement::Break(self.expr(&v[1])),
      "struct" => Statement::StructInit {
        struct_variable_name: self.name(&v[1]),
        type_name: match self.ty(&v[2]) {
          Type::Id(id) => id,
          _ => unreachable!(),
        },
        expression_list: v[3].as_array().map(|a| a.iter().map(|e| self.expr(e)).collect()).unwrap_or_default(),
      },
      "ldecl" => Statement::LateInitDeclaration { name: self.name(&v[1]), type_: INT_32_TYPE },
      "lassign" => Statement::LateInitAssignment { name: self.name(&v[1]), assigned_expression: self.expr(&v[2]) },
      _ => Statement::While {
        loop_variables: v[1]
          .as_array()
          .map(|a| {
            a.iter()
              .map(|t| GenenalLoopVariable {
                name: self.name(&t[0]),
                type_: INT_32_TYPE,
                initial_value: self.expr(&t[1]),
                loop_value: self.expr(&t[2]),
              })
              .collect()
          })
          .unwrap_or_default(),
        statements: self.stmts(&v[2]),
        break_collector: if v[3].is_null() { None } else { Some(VariableName { name: self.name(&v[3]), type_: INT_32_TYPE }) },
      },
    }
  }
}

fn replay(job: &Value) -> Value {
  let id = job["id"].clone();
  EXTENDED.store(true, std::sync::atomic::Ordering::Relaxed);
  let mut d = Dec { heap: Heap::new(), table: SymbolTable::new(), types: HashMap::new(), type_of: Vec::new(), fnames: HashMap::new(), max_name: 0, struct_vars: HashMap::new() };
  let m = &job["mir"];
  struct_vars_of(m, &mut d.struct_vars);
  let _ = d.ty(&json!(max_type_number(m)));
  let parameters: Vec<PStr> = m["params"].as_array().map(|a| a.iter().map(|p| d.name(p)).collect()).unwrap_or_default();
  let body = d.stmts(&m["body"]);
  let return_value = d.expr(&m["ret"]);
  let fname = d.heap.alloc_string("replayed".to_string());
  let mut f = Function {
    name: FunctionName::new_for_test(fname),
    type_: FunctionType { argument_types: vec![INT_32_TYPE; parameters.len()], return_type: Box::new(INT_32_TYPE) },
    parameters,
    body,
    return_value,
  };
  let pass = job["pass"].as_str().unwrap_or("").to_string();
  let counter = d.heap.create_temp_counter();
  let r = catch_unwind(AssertUnwindSafe(|| {
    if !run_named(&pass, &mut f, &counter) {
      panic!("unknown pass {pass}");
    }
    f
  }));
  let f = match r {
    Ok(f) => f,
    Err(e) => return json!({"id": id, "panic": panic_msg(e)}),
  };
  let mut names = BTreeSet::new();
  if let Err(r) = scan_function(&f, &mut names) {
    return json!({"id": id, "skip": r});
  }
  // a name made by the pass (fresh temporary "_t<id>") is reported above the range of the input names ("V.." < "_t.."),
  // the temporaries among themselves in their PStr order; `fresh` lists all that were allocated, in allocation order
  let base = (d.max_name + 1).max(1_000_000);
  let start = temp_id(d.heap.create_temp_counter().alloc_temp_str().as_str(&d.heap)).unwrap_or(0);
  let end = temp_id(counter.alloc_temp_str().as_str(&d.heap)).unwrap_or(start);
  let allocated: Vec<PStr> = (start..end).map(|id| d.heap.alloc_string(format!("_t{id}"))).collect();
  let sorted: BTreeSet<PStr> = allocated.iter().copied().collect();
  let temp_rank: HashMap<PStr, u64> = sorted.iter().enumerate().map(|(i, n)| (*n, i as u64)).collect();
  let heap = &d.heap;
  let name_of = |n: PStr| -> u64 {
    let s = n.as_str(heap);
    match s.strip_prefix('V').and_then(|r| r.parse::<u64>().ok()) {
      Some(k) => k,
      None => base + temp_rank.get(&n).copied().unwrap_or(999_999),
    }
  };
  let mut types = d.types.clone();
  let mut fnames = d.fnames.clone();
  let mut enc = Enc { name: &name_of, types: &mut types, fnames: &mut fnames };
  let after = enc.function(&f);
  let text = catch_unwind(AssertUnwindSafe(|| f.debug_print(heap, &d.table))).unwrap_or_default();
  let fresh: Vec<u64> = allocated.iter().map(|n| base + temp_rank[n]).collect();
  json!({"id": id, "after": after, "fresh": fresh, "text": text})
}

pub fn main(_args: &[String]) {
  let stdin = std::io::stdin();
  for line in stdin.lock().lines() {
    let Ok(line) = line else { break };
    if line.trim().is_empty() {
      continue;
    }
    let result = match serde_json::from_str::<Value>(&line) {
      Ok(job) => catch_unwind(AssertUnwindSafe(|| if job.get("mir").is_some() { replay(&job) } else { dump_sources(&job) }))
        .unwrap_or_else(|p| json!({"id": job["id"], "harness_panic": panic_msg(p)})),
      Err(e) => json!({"error": format!("bad job: {e}")}),
    };
    println!("{result}");
  }
}
