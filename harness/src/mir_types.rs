//! C01 correspondence: the type definitions (enum layouts) the real compiler chose.
//! stdin: one front-style JSON job per line ({"id","sources","entry"}); stdout: one JSON per line
//! {"id", "types": [{"name", "struct": [ty...]} | {"name", "enum": [ "i31" | {"unboxed": name} | {"boxed": [ty...]} ]}]}
//! where ty is "int", "i31" or a type name.
use crate::front::{load_sources, mod_ref, panic_msg};
use samlang_ast::mir;
use samlang_heap::Heap;
use serde_json::{Value, json};
use std::collections::HashMap;
use std::io::BufRead;
use std::panic::{AssertUnwindSafe, catch_unwind};

fn ty(heap: &Heap, table: &mir::SymbolTable, t: &mir::Type) -> Value {
  json!(t.pretty_print(heap, table))
}

pub fn run_job(job: &Value) -> Value {
  let mut heap = Heap::new();
  let texts = load_sources(&mut heap, job);
  let _entry = mod_ref(&mut heap, job["entry"].as_str().unwrap_or("Main"));
  let r = catch_unwind(AssertUnwindSafe(|| {
    let mut error_set = samlang_errors::ErrorSet::new();
    let mut parsed = HashMap::new();
    for (m, text) in &texts {
      parsed.insert(*m, samlang_parser::parse_source_module_from_text(text, *m, &mut heap, &mut error_set));
    }
    let checked = samlang_checker::type_check_sources(&parsed, &mut error_set).0;
    if error_set.has_errors() {
      return None;
    }
    Some(samlang_compiler::compile_sources_to_mir(&mut heap, &checked))
  }));
  let sources = match r {
    Ok(Some(s)) => s,
    Ok(None) => return json!({"id": job["id"], "rejected": true}),
    Err(p) => return json!({"id": job["id"], "lowering_panic": panic_msg(p)}),
  };
  let table = &sources.symbol_table;
  let mut types = Vec::new();
  for d in &sources.type_definitions {
    let name = d.name.encoded_for_test(&heap, table);
    match &d.mappings {
      mir::TypeDefinitionMappings::Struct(ts) => {
        types.push(json!({"name": name, "struct": ts.iter().map(|t| ty(&heap, table, t)).collect::<Vec<_>>()}));
      }
      mir::TypeDefinitionMappings::Enum(vs) => {
        let variants: Vec<Value> = vs
          .iter()
          .map(|v| match v {
            mir::EnumTypeDefinition::Int31 => json!("i31"),
            mir::EnumTypeDefinition::Unboxed(t) => json!({"unboxed": t.encoded_for_test(&heap, table)}),
            mir::EnumTypeDefinition::Boxed(ts) => {
              json!({"boxed": ts.iter().map(|t| ty(&heap, table, t)).collect::<Vec<_>>()})
            }
          })
          .collect();
        types.push(json!({"name": name, "enum": variants}));
      }
    }
  }
  json!({"id": job["id"], "types": types})
}

pub fn main(_args: &[String]) {
  let stdin = std::io::stdin();
  for line in stdin.lock().lines() {
    let line = line.unwrap();
    if line.trim().is_empty() {
      continue;
    }
    let job: Value = serde_json::from_str(&line).unwrap();
    println!("{}", run_job(&job));
  }
}
