//! MirSem — an executable semantics for samlang's mid-level IR (`samlang_ast::mir`), used for
//! translation validation of the optimizer: run the MIR before and after optimization and compare
//! what is printed and how the run ends.
//!
//! The semantics is derived from how MIR is lowered to the two targets (lir_lowering.rs,
//! wasm_lowering.rs + libsam.wat, and the TypeScript printer/prolog in lir.rs).  Where the two
//! targets disagree the WebAssembly behaviour is taken unless stated otherwise; every such decision
//! is marked `DECISION` below.
//!
//! CLI (`vh mir-run`): one JSON job per line on stdin
//!   {"id": any, "sources": {"Mod.Name": "text", ...}, "entry": "Mod.Name", "fuel": N,
//!    "configs": [[lvn, cse, loop, inlining, sroa], ...],
//!    optional: "max_depth": N (default 10000), "parallel_loops": bool, "dump_mir": bool}
//! and one JSON result per line
//!   {"id":.., "unopt": OUTCOME, "opt": [{"config": [...], "outcome": OUTCOME | "optimizer_panic": msg}]}
//!   OUTCOME = {"lines": [...], "ending": {"kind":.., "detail":..}, "overflowed": bool, "steps": fuel used}
//! or {"id":.., "rejected": true} when the front end reports errors.
#![allow(dead_code)] // the library entry points are for the other checks of the harness
use crate::front::{load_sources, mod_ref, panic_msg};
use samlang_ast::hir::BinaryOperator as Op;
use samlang_ast::mir::{
  Callee, EnumTypeDefinition, Expression, Function, FunctionName, Sources, Statement, Type,
  TypeDefinitionMappings, TypeNameId,
};
use samlang_heap::{Heap, ModuleReference, PStr};
use serde_json::{Value, json};
use std::collections::HashMap;
use std::hash::{BuildHasherDefault, Hasher};
use std::io::BufRead;
use std::panic::{AssertUnwindSafe, catch_unwind};
use std::rc::Rc;

// ------------------------------------------------------------------------------------------------
// Public API
// ------------------------------------------------------------------------------------------------

#[derive(Debug, Clone, PartialEq, Eq)]
pub enum MirEnding {
  /// The entry function returned.
  Return,
  /// `Process.panic(msg)`.
  Panic(String),
  /// A run-time trap of the target: "div-by-zero", "div-overflow", "vec-bounds: ...",
  /// "vec-capacity: ...", "str-toInt: empty string".
  Trap(String),
  OutOfFuel,
  StackOverflow,
  /// Ill-formed MIR (unbound variable, wrong arity, access out of struct bounds, call of a
  /// non-function, bad cast, ...) or an internal error of this interpreter.
  Fault(String),
}

#[derive(Debug, Clone, PartialEq, Eq)]
pub struct MirOutcome {
  pub lines: Vec<String>,
  pub ending: MirEnding,
  /// Some `+ - *` wrapped around during the run; the caller excludes such runs from comparisons.
  pub overflowed: bool,
}

#[derive(Debug, Clone, Copy, Default)]
pub struct MirOptions {
  /// DECISION (loop protocol): at the end of an iteration both targets execute
  /// `v1 = loop_value1; v2 = loop_value2; ...` one after the other, so a `loop_value` that
  /// mentions an earlier loop variable sees its *new* value.  That sequential behaviour is the
  /// default; `parallel_loops` evaluates all loop values first (phi semantics) for diagnosis.
  pub parallel_loops: bool,
}

pub fn run_mir(heap: &Heap, sources: &Sources, main: &FunctionName, fuel: u64, max_depth: usize) -> MirOutcome {
  run_mir_with(heap, sources, main, fuel, max_depth, MirOptions::default())
}

/// Stack sizes tried for the interpreter thread, largest first.  7/8 of the stack may be used
/// before StackOverflow is reported regardless of `max_depth` (the rest is head room for
/// builtins, formatting and unwinding).
const STACK_SIZES: [usize; 3] = [1 << 30, 1 << 28, 1 << 26];
/// Bytes of interpreter heap (there is no garbage collection) after which a run is OutOfFuel.
const MEMORY_LIMIT: usize = 512 << 20;

struct AssertSend<T>(T);
// The spawning thread blocks in `join` while the interpreter thread uses the references.
unsafe impl<T> Send for AssertSend<T> {}

pub fn run_mir_with(
  heap: &Heap,
  sources: &Sources,
  main: &FunctionName,
  fuel: u64,
  max_depth: usize,
  options: MirOptions,
) -> MirOutcome {
  run_mir_counting(heap, sources, main, fuel, max_depth, options).0
}

/// Like `run_mir_with`, also returning the fuel consumed (statements + iterations + calls).
pub fn run_mir_counting(
  heap: &Heap,
  sources: &Sources,
  main: &FunctionName,
  fuel: u64,
  max_depth: usize,
  options: MirOptions,
) -> (MirOutcome, u64) {
  let mut error = String::new();
  for stack_size in STACK_SIZES {
    let input = AssertSend((heap, sources, *main));
    let spawned = std::thread::scope(|scope| {
      std::thread::Builder::new().stack_size(stack_size).spawn_scoped(scope, move || {
        let input = input; // move the whole wrapper, not its fields
        let (heap, sources, main) = input.0;
        let mut interp = Interp::new(heap, sources, fuel, max_depth, stack_size / 8 * 7, options);
        let r = catch_unwind(AssertUnwindSafe(|| interp.run_main(&main)));
        let ending = match r {
          Ok(Ok(())) => MirEnding::Return,
          Ok(Err(e)) => e,
          Err(p) => MirEnding::Fault(format!("interpreter panic: {}", panic_msg(p))),
        };
        let outcome = MirOutcome { lines: std::mem::take(&mut interp.lines), ending, overflowed: interp.overflowed };
        AssertSend((outcome, fuel - interp.fuel))
      })
      .map(|h| h.join())
    });
    match spawned {
      Ok(Ok(o)) => return o.0,
      Ok(Err(p)) => return (fault_outcome(format!("interpreter thread panic: {}", panic_msg(p))), 0),
      Err(e) => error = e.to_string(),
    }
  }
  (fault_outcome(format!("cannot spawn interpreter thread: {error}")), 0)
}

fn fault_outcome(msg: String) -> MirOutcome {
  MirOutcome { lines: Vec::new(), ending: MirEnding::Fault(msg), overflowed: false }
}

// ------------------------------------------------------------------------------------------------
// Values and heap objects
// ------------------------------------------------------------------------------------------------

/// DECISION (values): 32-bit ints and i31 values are kept apart (as in WebAssembly, where an i31 is
/// a reference; in TypeScript `Int31Literal(i)` is the number `2i+1`).  `Ref` indexes `Interp::objs`.
#[derive(Debug, Clone, Copy, PartialEq, Eq)]
enum V {
  Int(i32),
  I31(i32),
  Ref(u32),
  /// Declared by `LateInitDeclaration` / as break collector, not assigned yet.
  Uninit,
}

enum Obj {
  Struct(Box<[V]>),
  Closure(FunctionName, V),
  Str(Rc<str>),
  /// `cap` mirrors the length of the backing array of libsam.wat's `$_Vec`.
  Vec { data: Vec<V>, cap: i32 },
}

type R<T> = Result<T, MirEnding>;

fn fault<T>(msg: impl Into<String>) -> R<T> {
  Err(MirEnding::Fault(msg.into()))
}

enum Flow {
  Next,
  Break(V),
}

#[derive(Default, Clone, Copy)]
struct FxH(u64);
impl Hasher for FxH {
  fn finish(&self) -> u64 {
    self.0
  }
  fn write(&mut self, bytes: &[u8]) {
    for &b in bytes {
      self.0 = (self.0.rotate_left(5) ^ b as u64).wrapping_mul(0x517c_c1b7_2722_0a95);
    }
  }
  fn write_u32(&mut self, i: u32) {
    self.0 = (self.0.rotate_left(5) ^ i as u64).wrapping_mul(0x517c_c1b7_2722_0a95);
  }
  fn write_u64(&mut self, i: u64) {
    self.0 = (self.0.rotate_left(5) ^ i).wrapping_mul(0x517c_c1b7_2722_0a95);
  }
  // PStr hashes as one u128.
  fn write_u128(&mut self, i: u128) {
    self.write_u64(i as u64);
    self.write_u64((i >> 64) as u64);
  }
}
type Fx = BuildHasherDefault<FxH>;
type Env = HashMap<PStr, V, Fx>;

#[inline(never)]
fn stack_pointer() -> usize {
  let marker = 0u8;
  std::hint::black_box(&marker) as *const u8 as usize
}

// ------------------------------------------------------------------------------------------------
// Interpreter
// ------------------------------------------------------------------------------------------------

struct Interp<'a> {
  heap: &'a Heap,
  options: MirOptions,
  functions: HashMap<FunctionName, &'a Function, Fx>,
  /// Global string constants: one object per distinct content (identity matters for `==` on
  /// values that are not statically typed `_Str`).
  strings: HashMap<PStr, V, Fx>,
  /// For `Cast` checks: type id -> (may hold a heap pointer, may hold an i31).
  kinds: HashMap<TypeNameId, (bool, bool), Fx>,
  table: &'a samlang_ast::mir::SymbolTable,
  objs: Vec<Obj>,
  /// Variables of the running function.  DECISION (scoping): names defined inside a branch or a
  /// loop body go out of scope at its end (TypeScript `let` scoping; WebAssembly locals are
  /// function-wide) — `log` records what to undo.  A read of an out-of-scope name is a Fault.
  env: Env,
  log: Vec<(PStr, Option<V>)>,
  env_pool: Vec<Env>,
  lines: Vec<String>,
  fuel: u64,
  overflowed: bool,
  depth: usize,
  max_depth: usize,
  stack_base: usize,
  stack_budget: usize,
  memory: usize,
}

impl<'a> Interp<'a> {
  fn new(
    heap: &'a Heap,
    sources: &'a Sources,
    fuel: u64,
    max_depth: usize,
    stack_budget: usize,
    options: MirOptions,
  ) -> Self {
    let mut me = Interp {
      heap,
      options,
      functions: sources.functions.iter().map(|f| (f.name, f)).collect(),
      strings: HashMap::default(),
      kinds: HashMap::default(),
      table: &sources.symbol_table,
      objs: Vec::new(),
      env: Env::default(),
      log: Vec::new(),
      env_pool: Vec::new(),
      lines: Vec::new(),
      fuel,
      overflowed: false,
      depth: 0,
      max_depth,
      stack_base: stack_pointer(),
      stack_budget,
      memory: 0,
    };
    for g in &sources.global_variables {
      let v = me.alloc(Obj::Str(Rc::from(g.0.as_str(heap))));
      me.strings.insert(g.0, v);
    }
    me.kinds.insert(TypeNameId::STR, (true, false));
    me.kinds.insert(TypeNameId::VEC, (true, false));
    for c in &sources.closure_types {
      me.kinds.insert(c.name, (true, false));
    }
    for d in &sources.type_definitions {
      let kind = match &d.mappings {
        TypeDefinitionMappings::Struct(_) => (true, false),
        // An enum without variants (builtin placeholder classes) is left unconstrained.
        TypeDefinitionMappings::Enum(vs) if vs.is_empty() => (true, true),
        TypeDefinitionMappings::Enum(vs) => (
          vs.iter().any(|v| !matches!(v, EnumTypeDefinition::Int31)),
          vs.iter().any(|v| matches!(v, EnumTypeDefinition::Int31)),
        ),
      };
      me.kinds.entry(d.name).or_insert(kind);
    }
    me
  }

  fn run_main(&mut self, main: &FunctionName) -> R<()> {
    let Some(f) = self.functions.get(main).copied() else {
      return fault(format!("entry function {} not found", self.fn_name(main)));
    };
    // The emitted TS calls `main()` without arguments and the wasm export takes whatever is left
    // of `_this`; any remaining parameter is a dummy receiver.
    let args = vec![V::Int(0); f.parameters.len()];
    self.call_function(f, &args).map(|_| ())
  }

  fn fn_name(&self, n: &FunctionName) -> String {
    catch_unwind(AssertUnwindSafe(|| n.encoded_for_test(self.heap, self.table)))
      .unwrap_or_else(|_| format!("<fn {}>", n.fn_name.as_str(self.heap)))
  }

  fn name(&self, n: PStr) -> String {
    n.as_str(self.heap).to_string()
  }

  fn alloc(&mut self, o: Obj) -> V {
    self.memory += 48
      + match &o {
        Obj::Struct(fields) => 16 * fields.len(),
        Obj::Str(s) => s.len(),
        Obj::Closure(..) | Obj::Vec { .. } => 0,
      };
    self.objs.push(o);
    V::Ref((self.objs.len() - 1) as u32)
  }

  fn tick(&mut self, n: u64) -> R<()> {
    if self.memory > MEMORY_LIMIT {
      return Err(MirEnding::OutOfFuel);
    }
    if self.fuel < n {
      self.fuel = 0;
      return Err(MirEnding::OutOfFuel);
    }
    self.fuel -= n;
    Ok(())
  }

  // ---------------------------------------------------------------------------- environment

  /// `let name = v` in the current scope.
  fn def(&mut self, name: PStr, v: V) {
    let old = self.env.insert(name, v);
    self.log.push((name, old));
  }

  /// Assignment to a name declared in an enclosing scope.
  fn assign(&mut self, name: PStr, v: V, what: &str) -> R<()> {
    match self.env.get_mut(&name) {
      Some(slot) => {
        *slot = v;
        Ok(())
      }
      None => fault(format!("{what} to undeclared variable {}", self.name(name))),
    }
  }

  fn unwind(&mut self, mark: usize) {
    while self.log.len() > mark {
      let (name, old) = self.log.pop().unwrap();
      match old {
        Some(v) => self.env.insert(name, v),
        None => self.env.remove(&name),
      };
    }
  }

  fn eval(&mut self, e: &Expression) -> R<V> {
    match e {
      Expression::Int32Literal(i) => Ok(V::Int(*i)),
      Expression::Int31Literal(i) => Ok(V::I31(*i)),
      Expression::StringName(n) => match self.strings.get(n) {
        Some(v) => Ok(*v),
        // wasm_lowering unwraps the lookup in its string table: the compiler would crash.
        None => fault(format!("string constant not in global_variables: {:?}", self.name(*n))),
      },
      Expression::Variable(v) => match self.env.get(&v.name) {
        Some(V::Uninit) => fault(format!("read of unassigned late-init variable {}", self.name(v.name))),
        Some(x) => Ok(*x),
        None => fault(format!("unbound variable {}", self.name(v.name))),
      },
    }
  }

  /// DECISION (conditions): WebAssembly tests `c != 0`, inverts with `c xor 1`, and TypeScript
  /// uses truthiness and `!c`; they agree exactly on {0, 1}.  Anything else is a Fault.
  fn boolean(&mut self, e: &Expression, what: &str) -> R<bool> {
    match self.eval(e)? {
      V::Int(0) => Ok(false),
      V::Int(1) => Ok(true),
      v => fault(format!("{what}: operand is not 0/1: {v:?}")),
    }
  }

  fn int(&self, v: V, what: &str) -> R<i32> {
    match v {
      V::Int(i) => Ok(i),
      v => fault(format!("{what}: expected int, got {v:?}")),
    }
  }

  fn string(&self, v: V, what: &str) -> R<Rc<str>> {
    if let V::Ref(r) = v
      && let Obj::Str(s) = &self.objs[r as usize]
    {
      return Ok(s.clone());
    }
    fault(format!("{what}: expected string, got {}", self.describe(v)))
  }

  fn vec_index(&self, v: V, what: &str) -> R<usize> {
    if let V::Ref(r) = v
      && let Obj::Vec { .. } = &self.objs[r as usize]
    {
      return Ok(r as usize);
    }
    fault(format!("{what}: expected Vec, got {}", self.describe(v)))
  }

  fn describe(&self, v: V) -> String {
    match v {
      V::Ref(r) => match &self.objs[r as usize] {
        Obj::Struct(fs) => format!("struct/{}", fs.len()),
        Obj::Closure(..) => "closure".to_string(),
        Obj::Str(_) => "string".to_string(),
        Obj::Vec { .. } => "Vec".to_string(),
      },
      v => format!("{v:?}"),
    }
  }

  // ---------------------------------------------------------------------------- statements

  fn block(&mut self, stmts: &'a [Statement]) -> R<Flow> {
    for s in stmts {
      if let Flow::Break(v) = self.exec(s)? {
        return Ok(Flow::Break(v));
      }
    }
    Ok(Flow::Next)
  }

  fn exec(&mut self, s: &'a Statement) -> R<Flow> {
    self.tick(1)?;
    match s {
      // DECISION (IsPointer): TypeScript tests `typeof x === 'object'`, WebAssembly
      // `ref.test (ref $pointer_type)`.  On compiler-produced MIR they agree (an enum has either
      // one unboxed pointer variant or boxed variants whose tags are then compared); the
      // structural TypeScript reading is taken: 1 for every heap object, 0 for i31 and int.
      Statement::IsPointer { name, pointer_type: _, operand } => {
        let v = self.eval(operand)?;
        self.def(*name, V::Int(matches!(v, V::Ref(_)) as i32));
      }
      Statement::Not { name, operand } => {
        let b = self.boolean(operand, "Not")?;
        self.def(*name, V::Int(!b as i32));
      }
      Statement::Binary(b) => {
        let (v1, v2) = (self.eval(&b.e1)?, self.eval(&b.e2)?);
        // DECISION: `x + 0` is the optimizer's move idiom for values of every type (inlining.rs:
        // "Using this to move the value around, will be optimized away eventually").
        if b.operator == Op::PLUS
          && matches!(b.e2, Expression::Int32Literal(0))
          && !matches!(v1, V::Int(_))
        {
          self.def(b.name, v1);
        } else {
          let r = self.binary(b.operator, &b.e1, &b.e2, v1, v2)?;
          self.def(b.name, V::Int(r));
        }
      }
      Statement::IndexedAccess { name, type_: _, pointer_expression, index } => {
        let v = match self.eval(pointer_expression)? {
          V::Ref(r) => match &self.objs[r as usize] {
            Obj::Struct(fields) => match fields.get(*index) {
              Some(v) => *v,
              None => return fault(format!("access out of struct bounds: [{index}] of {} fields", fields.len())),
            },
            _ => return fault(format!("indexed access on {}", self.describe(V::Ref(r)))),
          },
          v => return fault(format!("indexed access on non-pointer {v:?}")),
        };
        self.def(*name, v);
      }
      Statement::Call { callee, arguments, return_type: _, return_collector } => {
        let mut args = Vec::with_capacity(arguments.len() + 1);
        let result = match callee {
          Callee::FunctionName(f) => {
            for a in arguments {
              args.push(self.eval(a)?);
            }
            self.call_named(&f.name, &args)?
          }
          // A closure call passes the context as first argument (lir_lowering: slots 0 and 1 of
          // the closure object, then `fn(cx, args...)`).
          Callee::Variable(c) => {
            let cv = self.eval(&Expression::Variable(*c))?;
            let (f, cx) = match cv {
              V::Ref(r) => match &self.objs[r as usize] {
                Obj::Closure(f, cx) => (*f, *cx),
                _ => return fault(format!("call of a non-function: {}", self.describe(cv))),
              },
              v => return fault(format!("call of a non-function: {v:?}")),
            };
            args.push(cx);
            for a in arguments {
              args.push(self.eval(a)?);
            }
            self.call_named(&f, &args)?
          }
        };
        if let Some(c) = return_collector {
          self.def(*c, result);
        }
      }
      // Printer / lowerings: final-assignment names are declared before the `if`, and
      // `name = e1` / `name = e2` run as the last statements *inside* the taken branch.
      Statement::IfElse { condition, s1, s2, final_assignments } => {
        let c = self.boolean(condition, "IfElse condition")?;
        let mark = self.log.len();
        if let Flow::Break(v) = self.block(if c { s1 } else { s2 })? {
          self.unwind(mark);
          return Ok(Flow::Break(v));
        }
        let mut values = Vec::with_capacity(final_assignments.len());
        for fa in final_assignments {
          values.push(self.eval(if c { &fa.e1 } else { &fa.e2 })?);
        }
        self.unwind(mark);
        for (fa, v) in final_assignments.iter().zip(values) {
          self.def(fa.name, v);
        }
      }
      Statement::SingleIf { condition, invert_condition, statements } => {
        let c = self.boolean(condition, "SingleIf condition")?;
        if c != *invert_condition {
          let mark = self.log.len();
          let flow = self.block(statements)?;
          self.unwind(mark);
          return Ok(flow);
        }
      }
      // `break_collector = e; break;` of the innermost loop; the value travels with the Flow.
      Statement::Break(e) => return Ok(Flow::Break(self.eval(e)?)),
      Statement::While { loop_variables, statements, break_collector } => {
        for lv in loop_variables {
          let v = self.eval(&lv.initial_value)?;
          self.def(lv.name, v);
        }
        if let Some(bc) = break_collector {
          self.def(bc.name, V::Uninit);
        }
        loop {
          self.tick(1)?;
          let mark = self.log.len();
          if let Flow::Break(v) = self.block(statements)? {
            self.unwind(mark);
            if let Some(bc) = break_collector {
              self.assign(bc.name, v, "break")?;
            }
            break;
          }
          // Loop values are evaluated inside the body's scope (they name body temporaries).
          if self.options.parallel_loops {
            let mut values = Vec::with_capacity(loop_variables.len());
            for lv in loop_variables {
              values.push(self.eval(&lv.loop_value)?);
            }
            self.unwind(mark);
            for (lv, v) in loop_variables.iter().zip(values) {
              self.assign(lv.name, v, "loop update")?;
            }
          } else {
            for lv in loop_variables {
              let v = self.eval(&lv.loop_value)?;
              self.assign(lv.name, v, "loop update")?;
            }
            self.unwind(mark);
          }
        }
      }
      Statement::Cast { name, type_, assigned_expression } => {
        let v = self.eval(assigned_expression)?;
        self.check_cast(v, type_)?;
        self.def(*name, v);
      }
      Statement::LateInitDeclaration { name, type_: _ } => self.def(*name, V::Uninit),
      Statement::LateInitAssignment { name, assigned_expression } => {
        let v = self.eval(assigned_expression)?;
        self.assign(*name, v, "late-init assignment")?;
      }
      Statement::StructInit { struct_variable_name, type_name: _, expression_list } => {
        let mut fields = Vec::with_capacity(expression_list.len());
        for e in expression_list {
          fields.push(self.eval(e)?);
        }
        let v = self.alloc(Obj::Struct(fields.into_boxed_slice()));
        self.def(*struct_variable_name, v);
      }
      Statement::ClosureInit { closure_variable_name, closure_type_name: _, function_name, context } => {
        let cx = self.eval(context)?;
        let v = self.alloc(Obj::Closure(function_name.name, cx));
        self.def(*closure_variable_name, v);
      }
    }
    Ok(Flow::Next)
  }

  /// DECISION (Cast): the value is passed through unchanged (TypeScript `as unknown as T`;
  /// WebAssembly at most a `ref.cast`).  Only a detectable pointer / non-pointer mismatch is
  /// reported; nominal struct types are not compared.
  fn check_cast(&self, v: V, target: &Type) -> R<()> {
    let ok = match (target, v) {
      (Type::Int32, V::Int(_)) | (Type::Int31, V::I31(_)) => true,
      (Type::Int32 | Type::Int31, _) => false,
      (Type::Id(_), V::Int(_) | V::Uninit) => false,
      (Type::Id(id), V::Ref(_) | V::I31(_)) => {
        // Subtypes of an enum (boxed variants) are structs.
        let (ptr, i31) = if self.table.get_parent_type_if_subtype(*id).is_some() {
          (true, false)
        } else {
          self.kinds.get(id).copied().unwrap_or((true, true))
        };
        if matches!(v, V::Ref(_)) { ptr } else { i31 }
      }
    };
    if ok {
      Ok(())
    } else {
      let t = catch_unwind(AssertUnwindSafe(|| target.pretty_print(self.heap, self.table)))
        .unwrap_or_else(|_| "<type>".to_string());
      fault(format!("bad cast of {} to {t}", self.describe(v)))
    }
  }

  fn is_str_expr(e: &Expression) -> bool {
    match e {
      Expression::StringName(_) => true,
      Expression::Variable(v) => v.type_ == Type::Id(TypeNameId::STR),
      _ => false,
    }
  }

  fn binary(&mut self, op: Op, e1: &Expression, e2: &Expression, v1: V, v2: V) -> R<i32> {
    if matches!(op, Op::EQ | Op::NE) {
      // Both targets select string comparison statically: an operand that is a string constant
      // or a variable of type `_Str` (lir.rs `type_is_str`, wasm_lowering `is_string_expr`).
      let equal = if Self::is_str_expr(e1) || Self::is_str_expr(e2) {
        let (a, b) = (self.string(v1, "string comparison")?, self.string(v2, "string comparison")?);
        self.tick((a.len().min(b.len()) / 16) as u64)?;
        a == b
      } else {
        match (v1, v2) {
          (V::Int(a), V::Int(b)) | (V::I31(a), V::I31(b)) => a == b,
          // `ref.eq`: identity for heap objects; an i31 is never equal to a heap object.
          (V::Ref(a), V::Ref(b)) => a == b,
          (V::Ref(_), V::I31(_)) | (V::I31(_), V::Ref(_)) => false,
          // i32 against a reference does not type-check in WebAssembly.
          _ => return fault(format!("comparison of {v1:?} with {v2:?}")),
        }
      };
      return Ok((equal == (op == Op::EQ)) as i32);
    }
    let what = op.as_str();
    let (a, b) = (self.int(v1, what)?, self.int(v2, what)?);
    let mut arith = |exact: i64, wrapped: i32| {
      if exact != wrapped as i64 {
        self.overflowed = true;
      }
      wrapped
    };
    // WebAssembly i32 semantics (the TypeScript printer differs on DIV: Math.floor, and does not
    // wrap; runs where that matters are flagged through `overflowed` / are a known finding).
    Ok(match op {
      Op::PLUS => arith(a as i64 + b as i64, a.wrapping_add(b)),
      Op::MINUS => arith(a as i64 - b as i64, a.wrapping_sub(b)),
      Op::MUL => arith(a as i64 * b as i64, a.wrapping_mul(b)),
      Op::DIV | Op::MOD if b == 0 => return Err(MirEnding::Trap("div-by-zero".to_string())),
      Op::DIV if a == i32::MIN && b == -1 => return Err(MirEnding::Trap("div-overflow".to_string())),
      Op::DIV => a.wrapping_div(b),
      Op::MOD => a.wrapping_rem(b), // MIN % -1 = 0
      Op::LAND => a & b,
      Op::LOR => a | b,
      Op::XOR => a ^ b,
      Op::SHL => a.wrapping_shl(b as u32), // count masked by 31
      Op::SHR => ((a as u32).wrapping_shr(b as u32)) as i32, // shr_u / `>>>`
      Op::LT => (a < b) as i32,
      Op::LE => (a <= b) as i32,
      Op::GT => (a > b) as i32,
      Op::GE => (a >= b) as i32,
      Op::EQ | Op::NE => unreachable!(),
    })
  }

  // ---------------------------------------------------------------------------- calls

  fn call_named(&mut self, name: &FunctionName, args: &[V]) -> R<V> {
    if name.type_name == TypeNameId::PROCESS || name.type_name == TypeNameId::STR || name.type_name == TypeNameId::VEC {
      return self.builtin(name, args);
    }
    match self.functions.get(name).copied() {
      Some(f) => self.call_function(f, args),
      None => fault(format!("call of unknown function {}", self.fn_name(name))),
    }
  }

  fn call_function(&mut self, f: &'a Function, args: &[V]) -> R<V> {
    if f.parameters.len() != args.len() {
      return fault(format!(
        "wrong arity: {} takes {} arguments, got {}",
        self.fn_name(&f.name),
        f.parameters.len(),
        args.len()
      ));
    }
    if self.depth >= self.max_depth || self.stack_base.saturating_sub(stack_pointer()) > self.stack_budget {
      return Err(MirEnding::StackOverflow);
    }
    self.tick(1)?;
    self.depth += 1;
    let mut env = self.env_pool.pop().unwrap_or_default();
    for (p, a) in f.parameters.iter().zip(args) {
      env.insert(*p, *a);
    }
    let saved_env = std::mem::replace(&mut self.env, env);
    let saved_log = std::mem::take(&mut self.log);
    let result = match self.block(&f.body) {
      Ok(Flow::Next) => self.eval(&f.return_value),
      Ok(Flow::Break(_)) => fault(format!("break outside of a loop in {}", self.fn_name(&f.name))),
      Err(e) => Err(e),
    };
    let mut env = std::mem::replace(&mut self.env, saved_env);
    self.log = saved_log;
    env.clear();
    self.env_pool.push(env);
    self.depth -= 1;
    result
  }

  /// Builtins, behaviour per libsam.wat (receivers of static functions are dummies).
  fn builtin(&mut self, name: &FunctionName, args: &[V]) -> R<V> {
    let f = self.name(name.fn_name);
    let arity = |n: usize| -> R<()> {
      if args.len() == n { Ok(()) } else { fault(format!("wrong arity: builtin {f} takes {n} arguments, got {}", args.len())) }
    };
    let unit = V::Int(0);
    if name.type_name == TypeNameId::PROCESS {
      return match f.as_str() {
        "println" => {
          arity(2)?;
          let s = self.string(args[1], "println")?;
          self.lines.push(s.to_string());
          Ok(unit)
        }
        "panic" => {
          arity(2)?;
          Err(MirEnding::Panic(self.string(args[1], "panic")?.to_string()))
        }
        _ => fault(format!("unknown builtin Process.{f}")),
      };
    }
    if name.type_name == TypeNameId::STR {
      return match f.as_str() {
        "fromInt" => {
          arity(2)?;
          let s = self.int(args[1], "fromInt")?.to_string();
          Ok(self.alloc(Obj::Str(Rc::from(s))))
        }
        // DECISION (Str.toInt on non-numerals): libsam.wat — optional '-', then decimal digits
        // accumulated with wrap-around; any other byte gives 0; the empty string traps (array
        // access out of bounds).  (TypeScript: parseInt, i.e. NaN / prefixes.)
        "toInt" => {
          arity(1)?;
          let s = self.string(args[0], "toInt")?;
          let bytes = s.as_bytes();
          if bytes.is_empty() {
            return Err(MirEnding::Trap("str-toInt: empty string".to_string()));
          }
          let negative = bytes[0] == b'-';
          let mut n = 0i32;
          for &c in &bytes[negative as usize..] {
            if !c.is_ascii_digit() {
              return Ok(V::Int(0));
            }
            n = n.wrapping_mul(10).wrapping_add((c - b'0') as i32);
          }
          Ok(V::Int(if negative { 0i32.wrapping_sub(n) } else { n }))
        }
        "concat" => {
          arity(2)?;
          let (a, b) = (self.string(args[0], "concat")?, self.string(args[1], "concat")?);
          self.tick(((a.len() + b.len()) / 16) as u64)?;
          if self.memory + a.len() + b.len() > MEMORY_LIMIT {
            return Err(MirEnding::OutOfFuel);
          }
          let s: Rc<str> = Rc::from(format!("{a}{b}"));
          Ok(self.alloc(Obj::Str(s)))
        }
        "eq" => {
          arity(2)?;
          let (a, b) = (self.string(args[0], "Str.eq")?, self.string(args[1], "Str.eq")?);
          Ok(V::Int((a == b) as i32))
        }
        _ => fault(format!("unknown builtin Str.{f}")),
      };
    }
    // Vec.  DECISION (Vec<int>): elements are stored as they are (TypeScript); the WebAssembly
    // backend boxes ints as i31 and so truncates to 31 bits — a known finding, not modelled.
    match f.as_str() {
      "empty" => {
        arity(1)?;
        Ok(self.alloc(Obj::Vec { data: Vec::new(), cap: 0 }))
      }
      "withCapacity" => {
        arity(2)?;
        let cap = self.int(args[1], "withCapacity")?;
        if cap < 0 {
          // array.new with a huge unsigned length: allocation failure.
          return Err(MirEnding::Trap(format!("vec-capacity: withCapacity {cap}")));
        }
        Ok(self.alloc(Obj::Vec { data: Vec::new(), cap }))
      }
      "of" => {
        arity(2)?;
        Ok(self.alloc(Obj::Vec { data: vec![args[1]], cap: 1 }))
      }
      "length" | "capacity" | "reserve" | "push" | "pop" | "get" | "set" | "eq" => {
        let what = format!("Vec.{f}");
        let me = self.vec_index(*args.first().ok_or(MirEnding::Fault(format!("wrong arity: {what}")))?, &what)?;
        let other = if f == "eq" && args.len() == 2 { Some(self.vec_index(args[1], &what)?) } else { None };
        let int_arg = if matches!(f.as_str(), "reserve" | "get" | "set") && args.len() >= 2 {
          Some(self.int(args[1], &what)?)
        } else {
          None
        };
        if f == "eq" {
          arity(2)?;
          let other = other.unwrap();
          let (Obj::Vec { data: a, .. }, Obj::Vec { data: b, .. }) = (&self.objs[me], &self.objs[other]) else { unreachable!() };
          // ref.eq per element: ints / i31 by value, heap objects (strings too) by identity.
          let equal = me == other || (a.len() == b.len() && a.iter().zip(b.iter()).all(|(x, y)| x == y));
          let cost = (a.len() / 16) as u64;
          self.tick(cost)?;
          return Ok(V::Int(equal as i32));
        }
        let Obj::Vec { data, cap } = &mut self.objs[me] else { unreachable!() };
        // reserve(min): grow to max(min, 2 * cap, 4) when min > cap.
        let reserve = |cap: &mut i32, min: i32| {
          if min > *cap {
            *cap = (*cap).wrapping_shl(1).max(min).max(4);
          }
        };
        let len = data.len();
        match f.as_str() {
          "length" => arity(1).map(|_| V::Int(len as i32)),
          "capacity" => arity(1).map(|_| V::Int(*cap)),
          "reserve" => arity(2).map(|_| {
            reserve(cap, int_arg.unwrap());
            unit
          }),
          "push" => arity(2).map(|_| {
            self.memory += 16;
            reserve(cap, len as i32 + 1);
            data.push(args[1]);
            unit
          }),
          "pop" => {
            arity(1)?;
            data.pop().ok_or(MirEnding::Trap("vec-bounds: pop: empty Vec".to_string()))
          }
          // `i32.ge_u index length` -> unreachable (TypeScript: throws 'Vec index out of bounds').
          "get" => {
            arity(2)?;
            let i = int_arg.unwrap();
            data.get(i as u32 as usize).copied().ok_or(MirEnding::Trap(format!("vec-bounds: get: index {i} length {len}")))
          }
          _ => {
            arity(3)?;
            let i = int_arg.unwrap();
            match data.get_mut(i as u32 as usize) {
              Some(slot) => {
                *slot = args[2];
                Ok(unit)
              }
              None => Err(MirEnding::Trap(format!("vec-bounds: set: index {i} length {len}"))),
            }
          }
        }
      }
      _ => fault(format!("unknown builtin Vec.{f}")),
    }
  }
}

// ------------------------------------------------------------------------------------------------
// CLI
// ------------------------------------------------------------------------------------------------

fn ending_json(e: &MirEnding) -> Value {
  let (kind, detail) = match e {
    MirEnding::Return => ("return", ""),
    MirEnding::Panic(m) => ("panic", m.as_str()),
    MirEnding::Trap(m) => ("trap", m.as_str()),
    MirEnding::OutOfFuel => ("out-of-fuel", ""),
    MirEnding::StackOverflow => ("stack-overflow", ""),
    MirEnding::Fault(m) => ("fault", m.as_str()),
  };
  json!({"kind": kind, "detail": detail})
}

pub fn outcome_json(o: &MirOutcome) -> Value {
  json!({"lines": o.lines, "ending": ending_json(&o.ending), "overflowed": o.overflowed})
}

/// The `Main.main` of module `entry` among `sources.main_function_names`.
pub fn find_main(heap: &Heap, sources: &Sources, entry: ModuleReference) -> Option<FunctionName> {
  let expected = format!("_{}_Main$main", entry.encoded(heap));
  sources.main_function_names.iter().copied().find(|n| n.encoded_for_test(heap, &sources.symbol_table) == expected)
}

enum CompileFailure {
  Rejected,
  Panic(&'static str, String),
}

/// Front end + lowering (+ optimization with `config`) in a fresh `Heap`, following
/// `samlang_compiler::compile_sources`.
fn compile(job: &Value, config: Option<&Value>) -> Result<(Heap, Sources, ModuleReference, Value), CompileFailure> {
  let mut heap = Heap::new();
  let texts = load_sources(&mut heap, job);
  let entry = mod_ref(&mut heap, job["entry"].as_str().unwrap_or(""));
  let lowered = catch_unwind(AssertUnwindSafe(|| {
    let mut error_set = samlang_errors::ErrorSet::new();
    let mut parsed = HashMap::new();
    for (m, text) in &texts {
      parsed.insert(*m, samlang_parser::parse_source_module_from_text(text, *m, &mut heap, &mut error_set));
    }
    let checked = samlang_checker::type_check_sources(&parsed, &mut error_set).0;
    if error_set.has_errors() || !parsed.contains_key(&entry) {
      return None;
    }
    Some(samlang_compiler::compile_sources_to_mir(&mut heap, &checked))
  }));
  let unoptimized = match lowered {
    Ok(Some(s)) => s,
    Ok(None) => return Err(CompileFailure::Rejected),
    Err(p) => return Err(CompileFailure::Panic("lowering_panic", panic_msg(p))),
  };
  let _ = samlang_optimization::verif::take_iv_elimination_log();
  let sources = match config {
    None => unoptimized,
    // {"pass": name}: one pass applied once, in isolation (samlang_verif hook)
    Some(c) if c.is_object() => {
      let name = c["pass"].as_str().unwrap_or("").to_string();
      match catch_unwind(AssertUnwindSafe(|| {
        let mut sources = unoptimized;
        match name.as_str() {
          "inlining" => {
            let functions = std::mem::take(&mut sources.functions);
            sources.functions = samlang_optimization::verif::run_inlining(functions, &mut heap);
          }
          "unused" => samlang_optimization::verif::run_unused_name_elimination(&mut sources),
          _ => {
            let counter = heap.create_temp_counter();
            for f in sources.functions.iter_mut() {
              if !samlang_optimization::verif::run_function_pass(&name, f, &counter) {
                panic!("unknown pass {name}");
              }
            }
            heap.sync_temp_counter(&counter);
          }
        }
        sources
      })) {
        Ok(s) => s,
        Err(p) => return Err(CompileFailure::Panic("optimizer_panic", panic_msg(p))),
      }
    }
    Some(c) => {
      let c: Vec<bool> = c.as_array().map(|a| a.iter().map(|b| b.as_bool().unwrap_or(false)).collect()).unwrap_or_default();
      let flag = |i: usize| c.get(i).copied().unwrap_or(false);
      let configuration = samlang_optimization::OptimizationConfiguration {
        does_perform_local_value_numbering: flag(0),
        does_perform_common_sub_expression_elimination: flag(1),
        does_perform_loop_optimization: flag(2),
        does_perform_inlining: flag(3),
        does_perform_scalar_replacement: flag(4),
      };
      match catch_unwind(AssertUnwindSafe(|| {
        samlang_optimization::optimize_sources(&mut heap, unoptimized, &configuration)
      })) {
        Ok(s) => s,
        Err(p) => return Err(CompileFailure::Panic("optimizer_panic", panic_msg(p))),
      }
    }
  };
  let iv_log: Vec<Value> = samlang_optimization::verif::take_iv_elimination_log()
    .into_iter()
    .map(|(op, m, c, g, i0, inc)| json!([op, m, c, g, i0, inc]))
    .collect();
  Ok((heap, sources, entry, json!(iv_log)))
}

/// Compile with `config`, run, and render: `Ok(outcome json)` or `Err((key, message))`.
fn compile_and_run(job: &Value, config: Option<&Value>) -> Result<Value, CompileFailure> {
  let (heap, sources, entry, iv_log) = compile(job, config)?;
  let fuel = job["fuel"].as_u64().unwrap_or(50_000_000);
  let max_depth = job["max_depth"].as_u64().unwrap_or(10_000) as usize;
  let options = MirOptions { parallel_loops: job["parallel_loops"].as_bool().unwrap_or(true) };
  let (outcome, steps) = match find_main(&heap, &sources, entry) {
    Some(main) => run_mir_counting(&heap, &sources, &main, fuel, max_depth, options),
    None => (fault_outcome("entry module has no Main.main".to_string()), 0),
  };
  let mut rendered = outcome_json(&outcome);
  rendered["steps"] = json!(steps);
  rendered["iv_log"] = iv_log;
  if job["dump_mir"].as_bool().unwrap_or(false) {
    rendered["mir"] = json!(catch_unwind(AssertUnwindSafe(|| sources.debug_print(&heap))).unwrap_or_default());
  }
  Ok(rendered)
}

pub fn run_job(job: &Value) -> Value {
  let id = job["id"].clone();
  let unopt = match compile_and_run(job, None) {
    Ok(o) => o,
    Err(CompileFailure::Rejected) => return json!({"id": id, "rejected": true}),
    Err(CompileFailure::Panic(key, msg)) => return json!({"id": id, key: msg}),
  };
  let mut opt = Vec::new();
  for config in job["configs"].as_array().map(|a| a.as_slice()).unwrap_or(&[]) {
    opt.push(match compile_and_run(job, Some(config)) {
      Ok(o) => json!({"config": config, "outcome": o}),
      Err(CompileFailure::Rejected) => json!({"config": config, "rejected": true}),
      Err(CompileFailure::Panic(key, msg)) => json!({"config": config, key: msg}),
    });
  }
  json!({"id": id, "unopt": unopt, "opt": opt})
}

pub fn main(_args: &[String]) {
  let stdin = std::io::stdin();
  for line in stdin.lock().lines() {
    let Ok(line) = line else { break };
    if line.trim().is_empty() {
      continue;
    }
    let result = match serde_json::from_str::<Value>(&line) {
      Ok(job) => catch_unwind(AssertUnwindSafe(|| run_job(&job)))
        .unwrap_or_else(|p| json!({"id": job["id"], "harness_panic": panic_msg(p)})),
      Err(e) => json!({"error": format!("bad job: {e}")}),
    };
    println!("{result}");
  }
}

// ------------------------------------------------------------------------------------------------
// Tests on hand-written MIR (the Fault paths cannot be reached from compiler-produced MIR)
// ------------------------------------------------------------------------------------------------

#[cfg(test)]
mod tests {
  use super::*;
  use samlang_ast::mir::{
    Binary, FunctionNameExpression, FunctionType, GenenalLoopVariable, INT_32_TYPE, IfElseFinalAssignment,
    SymbolTable, VariableName,
  };

  struct B {
    heap: Heap,
  }
  impl B {
    fn s(&mut self, s: &'static str) -> PStr {
      self.heap.alloc_str_for_test(s)
    }
    fn v(&mut self, s: &'static str) -> Expression {
      Expression::var_name(self.s(s), INT_32_TYPE)
    }
    fn fname(&mut self, s: &'static str) -> FunctionName {
      FunctionName::new_for_test(self.s(s))
    }
    fn func(&mut self, name: &'static str, params: &[&'static str], body: Vec<Statement>, ret: Expression) -> Function {
      Function {
        name: self.fname(name),
        parameters: params.iter().map(|p| self.s(p)).collect(),
        type_: FunctionType { argument_types: vec![INT_32_TYPE; params.len()], return_type: Box::new(INT_32_TYPE) },
        body,
        return_value: ret,
      }
    }
    fn call(&mut self, f: &'static str, args: Vec<Expression>, collector: Option<&'static str>) -> Statement {
      Statement::Call {
        callee: Callee::FunctionName(FunctionNameExpression {
          name: self.fname(f),
          type_: FunctionType { argument_types: vec![INT_32_TYPE; args.len()], return_type: Box::new(INT_32_TYPE) },
        }),
        arguments: args,
        return_type: INT_32_TYPE,
        return_collector: collector.map(|c| self.s(c)),
      }
    }
    /// Prints an int: `Process.println(0, Str.fromInt(0, e))`.
    fn print(&mut self, e: Expression) -> Vec<Statement> {
      let t = self.s("_printed");
      let str_t = Type::Id(TypeNameId::STR);
      let callee = |name: FunctionName| {
        Callee::FunctionName(FunctionNameExpression {
          name,
          type_: FunctionType { argument_types: vec![INT_32_TYPE, INT_32_TYPE], return_type: Box::new(INT_32_TYPE) },
        })
      };
      vec![
        Statement::Call {
          callee: callee(FunctionName::STR_FROM_INT),
          arguments: vec![Expression::i32(0), e],
          return_type: str_t,
          return_collector: Some(t),
        },
        Statement::Call {
          callee: callee(FunctionName::PROCESS_PRINTLN),
          arguments: vec![Expression::i32(0), Expression::var_name(t, str_t)],
          return_type: INT_32_TYPE,
          return_collector: None,
        },
      ]
    }
    fn run(&mut self, functions: Vec<Function>, options: MirOptions, max_depth: usize) -> MirOutcome {
      let main = self.fname("main");
      let sources = Sources {
        symbol_table: SymbolTable::new(),
        global_variables: Vec::new(),
        closure_types: Vec::new(),
        type_definitions: Vec::new(),
        main_function_names: vec![main],
        functions,
      };
      run_mir_with(&self.heap, &sources, &main, 10_000, max_depth, options)
    }
    fn run_main(&mut self, body: Vec<Statement>, ret: Expression) -> MirOutcome {
      let f = self.func("main", &[], body, ret);
      self.run(vec![f], MirOptions::default(), 100)
    }
  }

  fn b() -> B {
    B { heap: Heap::new() }
  }

  fn is_fault(o: &MirOutcome, needle: &str) -> bool {
    matches!(&o.ending, MirEnding::Fault(m) if m.contains(needle))
  }

  #[test]
  fn faults() {
    let mut b = b();
    let x = b.v("x");
    assert!(is_fault(&b.run_main(vec![], x), "unbound variable x"));

    let call = b.call("g", vec![Expression::i32(1)], None);
    let (f, g) = (b.func("main", &[], vec![call], Expression::i32(0)), b.func("g", &[], vec![], Expression::i32(0)));
    assert!(is_fault(&b.run(vec![f, g], MirOptions::default(), 100), "wrong arity"));

    let call = b.call("nowhere", vec![], None);
    assert!(is_fault(&b.run_main(vec![call], Expression::i32(0)), "unknown function"));

    let (o, y) = (b.s("o"), b.s("y"));
    let t = SymbolTable::new().create_type_name_for_test(PStr::UPPER_A);
    let init = Statement::StructInit { struct_variable_name: o, type_name: t, expression_list: vec![Expression::i32(7)] };
    let access = |index| Statement::IndexedAccess {
      name: y,
      type_: INT_32_TYPE,
      pointer_expression: Expression::var_name(o, Type::Id(t)),
      index,
    };
    let printed = b.print(Expression::var_name(y, INT_32_TYPE));
    let ok = b.run_main([vec![init.clone(), access(0)], printed].concat(), Expression::i32(0));
    assert_eq!((ok.lines, ok.ending), (vec!["7".to_string()], MirEnding::Return));
    assert!(is_fault(&b.run_main(vec![init.clone(), access(1)], Expression::i32(0)), "out of struct bounds"));
    let bad_access = Statement::IndexedAccess { name: y, type_: INT_32_TYPE, pointer_expression: Expression::i32(3), index: 0 };
    assert!(is_fault(&b.run_main(vec![bad_access], Expression::i32(0)), "non-pointer"));

    let call_int = Statement::Call {
      callee: Callee::Variable(VariableName::new(o, INT_32_TYPE)),
      arguments: vec![],
      return_type: INT_32_TYPE,
      return_collector: None,
    };
    let bind = Statement::Cast { name: o, type_: INT_32_TYPE, assigned_expression: Expression::i32(1) };
    assert!(is_fault(&b.run_main(vec![bind, call_int], Expression::i32(0)), "non-function"));

    let cast = |type_, e| Statement::Cast { name: y, type_, assigned_expression: e };
    assert!(is_fault(&b.run_main(vec![cast(Type::Id(TypeNameId::STR), Expression::i32(5))], Expression::i32(0)), "bad cast"));
    assert!(is_fault(&b.run_main(vec![cast(INT_32_TYPE, Expression::Int31Literal(5))], Expression::i32(0)), "bad cast"));
    assert!(is_fault(&b.run_main(vec![init, cast(INT_32_TYPE, Expression::var_name(o, Type::Id(t)))], Expression::i32(0)), "bad cast"));
    assert_eq!(b.run_main(vec![cast(Type::Int31, Expression::Int31Literal(5))], Expression::i32(0)).ending, MirEnding::Return);

    // a name defined inside a branch is out of scope after it; non-boolean conditions
    let inner = Statement::binary(y, Op::PLUS, Expression::i32(1), Expression::i32(1));
    let branch = Statement::SingleIf { condition: Expression::i32(0), invert_condition: true, statements: vec![inner] };
    assert!(is_fault(&b.run_main(vec![branch], Expression::var_name(y, INT_32_TYPE)), "unbound variable y"));
    let branch = Statement::SingleIf { condition: Expression::i32(2), invert_condition: false, statements: vec![] };
    assert!(is_fault(&b.run_main(vec![branch], Expression::i32(0)), "not 0/1"));
    assert!(is_fault(&b.run_main(vec![Statement::Break(Expression::i32(0))], Expression::i32(0)), "break outside"));
    let decl = Statement::LateInitDeclaration { name: y, type_: INT_32_TYPE };
    assert!(is_fault(&b.run_main(vec![decl], Expression::var_name(y, INT_32_TYPE)), "unassigned late-init"));
    let assign = Statement::LateInitAssignment { name: y, assigned_expression: Expression::i32(0) };
    assert!(is_fault(&b.run_main(vec![assign], Expression::i32(0)), "undeclared"));
  }

  #[test]
  fn operators_and_control_flow() {
    let mut b = b();
    let cases: Vec<(Op, i32, i32, i32)> = vec![
      (Op::SHR, -1, 28, 15),
      (Op::SHR, -1, 32, -1),
      (Op::SHL, 1, 33, 2),
      (Op::MOD, i32::MIN, -1, 0),
      (Op::MOD, -7, 2, -1),
      (Op::DIV, -7, 2, -3),
      (Op::MUL, 65536, 65536, 0),
      (Op::LAND, 6, 3, 2),
      (Op::LOR, 6, 3, 7),
      (Op::XOR, 6, 3, 5),
      (Op::LT, -1, 0, 1),
      (Op::GE, -1, 0, 0),
      (Op::NE, 4, 4, 0),
    ];
    for (op, x, y, expected) in cases {
      let r = b.s("r");
      let stmt = Statement::Binary(Binary { name: r, operator: op, e1: Expression::i32(x), e2: Expression::i32(y) });
      let printed = b.print(Expression::var_name(r, INT_32_TYPE));
      let o = b.run_main([vec![stmt], printed].concat(), Expression::i32(0));
      assert_eq!(o.lines, vec![expected.to_string()], "{x} {} {y}", op.as_str());
      assert_eq!(o.overflowed, op == Op::MUL);
    }
    let r = b.s("r");
    let div = |x, y| Statement::Binary(Binary { name: r, operator: Op::DIV, e1: Expression::i32(x), e2: Expression::i32(y) });
    assert_eq!(b.run_main(vec![div(1, 0)], Expression::i32(0)).ending, MirEnding::Trap("div-by-zero".to_string()));
    assert_eq!(b.run_main(vec![div(i32::MIN, -1)], Expression::i32(0)).ending, MirEnding::Trap("div-overflow".to_string()));

    // if (c) { t = 1 + 1; r = t } else { r = 5 }
    for (c, expected) in [(1, "2"), (0, "5")] {
      let (t, r) = (b.s("t"), b.s("r"));
      let stmt = Statement::IfElse {
        condition: Expression::i32(c),
        s1: vec![Statement::binary(t, Op::PLUS, Expression::i32(1), Expression::i32(1))],
        s2: vec![],
        final_assignments: vec![IfElseFinalAssignment {
          name: r,
          type_: INT_32_TYPE,
          e1: Expression::var_name(t, INT_32_TYPE),
          e2: Expression::i32(5),
        }],
      };
      let printed = b.print(Expression::var_name(r, INT_32_TYPE));
      assert_eq!(b.run_main([vec![stmt], printed].concat(), Expression::i32(0)).lines, vec![expected.to_string()]);
    }

    // let i = 0, j = 10; while (true) { if (i >= 3) { bc = j; break } t = i + 1; i = t; j = i } print(bc)
    // sequential update: j sees the new i (3 at the end); parallel: the old one (2).
    for (parallel, expected) in [(false, "3"), (true, "2")] {
      let (i, j, t, c, bc) = (b.s("i"), b.s("j"), b.s("t"), b.s("c"), b.s("bc"));
      let var = |n| Expression::var_name(n, INT_32_TYPE);
      let stmt = Statement::While {
        loop_variables: vec![
          GenenalLoopVariable { name: i, type_: INT_32_TYPE, initial_value: Expression::i32(0), loop_value: var(t) },
          GenenalLoopVariable { name: j, type_: INT_32_TYPE, initial_value: Expression::i32(10), loop_value: var(i) },
        ],
        statements: vec![
          Statement::binary(c, Op::GE, var(i), Expression::i32(3)),
          Statement::SingleIf { condition: var(c), invert_condition: false, statements: vec![Statement::Break(var(j))] },
          Statement::binary(t, Op::PLUS, var(i), Expression::i32(1)),
        ],
        break_collector: Some(VariableName::new(bc, INT_32_TYPE)),
      };
      let printed = b.print(var(bc));
      let f = b.func("main", &[], [vec![stmt], printed].concat(), Expression::i32(0));
      let o = b.run(vec![f], MirOptions { parallel_loops: parallel }, 100);
      assert_eq!((o.lines, o.ending), (vec![expected.to_string()], MirEnding::Return));
    }

    // unbounded recursion and an unbounded loop
    let call = b.call("main", vec![], None);
    let f = b.func("main", &[], vec![call], Expression::i32(0));
    assert_eq!(b.run(vec![f], MirOptions::default(), 50).ending, MirEnding::StackOverflow);
    let spin = Statement::While { loop_variables: vec![], statements: vec![], break_collector: None };
    assert_eq!(b.run_main(vec![spin], Expression::i32(0)).ending, MirEnding::OutOfFuel);
  }
}
