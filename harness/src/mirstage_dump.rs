//! `vh mirstage-dump` — layer B of the deep C01 check of the two private MIR->MIR stages that run at the
//! end of `samlang_compiler::compile_sources_to_mir`:
//!   `mir_constant_param_elimination::rewrite_sources` (whole program, "cpe") and then
//!   `mir_tail_recursion_rewrite::optimize_function_by_tailrec_rewrite` (per function, "tailrec").
//! The tool prints the real MIR immediately BEFORE and AFTER each stage (through the samlang_verif hooks
//! `samlang_compiler::verif::{compile_sources_to_mir_before_rewrites, constant_param_elimination,
//! tail_rec_rewrite}`), so that the Gallina model of a stage can be run on `before` and compared with `after`.
//!
//! One JSON job per line on stdin, one JSON result per line.
//!
//! ENCODING (all numbers are JSON integers)
//!   F = {"name": f, "params": [n..], "atys": [t..], "rty": t, "body": [S..], "ret": E}
//!   E = ["i", int] | ["j", int] (Int31Literal) | ["s", n] (StringName) | ["v", n, t]
//!   C = ["fn", f, [t..], t] | ["var", n, t]
//!   Q = [n, t, E, E]   (IfElseFinalAssignment name,type_,e1,e2 ; GenenalLoopVariable name,type_,initial,loop)
//!   S = ["bin", n, OP, E, E] | ["not", n, E] | ["prim", n, "idx"|"isptr"|"cast", t, index, E]
//!     | ["call", C, [E..], t, n|null] | ["if", E, [S..], [S..], [Q..]] | ["sif", E, bool, [S..]] | ["brk", E]
//!     | ["while", [Q..], [S..], [n, t]|null] | ["decl", n, t] | ["assign", n, E]
//!     | ["struct", n, t, [E..]] | ["closure", n, t, f, ft, E]
//!   n = name number, t = type number, f = function-name number, ft = type number of a FunctionType.
//!
//! (1) {"id":.., "sources": {"Mod": text, ..}, "entry": "Mod", "fuel": N (200000), "run": bool (true),
//!      "check_pipeline": bool (true), "parallel_loops": bool (false)}
//!     -> {"id", "types":[..], "fnames":[..], "names":[..], "tp":[[n,n]..],
//!         "cpe": {"before":[F..], "after":[F..]},
//!         "tailrec": [{"fname": f, "name": s, "before": F, "after": F, "fresh": [n..], "k": n, "changed": bool}
//!                    | {"fname": f, "name": s, "before": F, "panic": msg, "fresh": [n..], "k": n} ..],
//!         "main": f|null, "runs": {"before_cpe": O, "after_cpe": O, "after_tailrec": O},
//!         "pipeline_same": bool|null, "pipeline_diff": string|null}
//!     | {"id", "rejected": true} | {"id", "lowering_panic": msg}
//!     | {"id", .., "cpe": {"before": [F..]}, "cpe_panic": msg}   (tables and "runs"."before_cpe" are present)
//!     "runs": `mirsem::run_mir_with` (max_depth 2000) of the entry module's `Main.main` (`mirsem::find_main`) on the
//!     program before cpe / after cpe / after tailrec; "parallel_loops" selects the loop protocol of the interpreter
//!     (false = `run_mir`'s sequential default).  "pipeline_same": the real `compile_sources_to_mir`, run on the same
//!     checked sources in the same heap, gives function by function (matched by encoded name) the `debug_print` text
//!     of the staged result after `_t<digits>` -> `_t#`; "pipeline_diff" = name of the first function that differs.
//!     Per job one interning table each for types (key: Debug text; "fn:" + Debug text for function types),
//!     function names and names, numbered in the order of first use in the order in which the result is
//!     encoded: cpe.before, cpe.after (names 1..m), then "_tailrec_param_<x>" for every parameter x of every
//!     function of cpe.after ("tp"), then the temporaries allocated by the tailrec stage function after function
//!     in allocation order ("k" = number of the first one the function has or would have), then any other name.
//! (2) {"id":.., "program": [F..], "stage": "cpe"|"tailrec"|"both", "types_n": optional}
//!     builds the functions (name n -> "V%07d", function f -> "f%05d", type 0 -> int, 1 -> i31, t>=2 -> Id "T<t>";
//!     a position that needs a type NAME accepts 0/1 as well: names "T0"/"T1"; function type ft ->
//!     () -> <type ft>) and runs the real stage(s).
//!     -> {"id", "tp": [[n, 1000000+n]..], "cpe": {"before","after"} (if run), "tailrec": [..] (if run),
//!         "text_after": debug_print} plus "panic": msg, "stage": s after a panic.
//!     Names come back as: "V<digits>" -> the number, "_tailrec_param_V<digits>" -> 1000000 + number,
//!     allocated temporaries -> 2000000 + running index over the job, anything else -> 3000000 + running index.
use crate::front::{load_sources, mod_ref, panic_msg};
use crate::mirsem::{self, MirEnding, MirOptions, MirOutcome};
use samlang_ast::hir::BinaryOperator as Op;
use samlang_ast::mir::{
  Binary, Callee, Expression, Function, FunctionName, FunctionNameExpression, FunctionType, GenenalLoopVariable,
  INT_31_TYPE, INT_32_TYPE, IfElseFinalAssignment, Sources, Statement, SymbolTable, Type, TypeNameId, VariableName,
};
use samlang_compiler::verif as hooks;
use samlang_heap::{Heap, ModuleReference, PStr};
use serde_json::{Value, json};
use std::collections::{BTreeMap, HashMap};
use std::io::BufRead;
use std::panic::{AssertUnwindSafe, catch_unwind};

const OPS: [(&str, Op); 16] = [
  ("MUL", Op::MUL), ("DIV", Op::DIV), ("MOD", Op::MOD), ("PLUS", Op::PLUS), ("MINUS", Op::MINUS), ("LAND", Op::LAND),
  ("LOR", Op::LOR), ("SHL", Op::SHL), ("SHR", Op::SHR), ("XOR", Op::XOR), ("LT", Op::LT), ("LE", Op::LE),
  ("GT", Op::GT), ("GE", Op::GE), ("EQ", Op::EQ), ("NE", Op::NE),
];

fn op_name(op: Op) -> &'static str {
  OPS.iter().find(|(_, o)| *o == op).map(|(n, _)| *n).unwrap()
}

const TP_BASE: u64 = 1_000_000;
const FRESH_BASE: u64 = 2_000_000;
const OTHER_BASE: u64 = 3_000_000;
/// numbers given to types / function names the replayed stages invented (never happens: they invent none)
const UNKNOWN_BASE: usize = 9_000_000;

fn temp_id(s: &str) -> Option<u64> {
  s.strip_prefix("_t").and_then(|r| r.parse::<u64>().ok())
}

fn parse_v(s: &str) -> Option<u64> {
  let r = s.strip_prefix('V')?;
  if r.is_empty() || !r.bytes().all(|b| b.is_ascii_digit()) {
    return None;
  }
  r.parse::<u64>().ok()
}

// ------------------------------------------------------------------------------------------------
// interning tables + encoder
// ------------------------------------------------------------------------------------------------

struct Tables {
  replay: bool,
  types: HashMap<String, usize>,
  type_strs: BTreeMap<usize, String>,
  next_type: usize,
  fnames: HashMap<FunctionName, usize>,
  fname_strs: BTreeMap<usize, String>,
  next_fname: usize,
  names: HashMap<PStr, u64>,
  name_strs: BTreeMap<u64, String>,
  next_name: u64,
}

impl Tables {
  fn new(replay: bool) -> Tables {
    Tables {
      replay,
      types: HashMap::new(),
      type_strs: BTreeMap::new(),
      next_type: if replay { UNKNOWN_BASE } else { 0 },
      fnames: HashMap::new(),
      fname_strs: BTreeMap::new(),
      next_fname: if replay { UNKNOWN_BASE } else { 0 },
      names: HashMap::new(),
      name_strs: BTreeMap::new(),
      next_name: if replay { OTHER_BASE } else { 1 },
    }
  }

  /// a new name gets the next free number (unless it has one)
  fn add_name(&mut self, heap: &Heap, p: PStr) -> u64 {
    if let Some(n) = self.names.get(&p) {
      return *n;
    }
    let n = self.next_name;
    self.next_name += 1;
    self.names.insert(p, n);
    self.name_strs.insert(n, p.as_str(heap).to_string());
    n
  }

  fn types_json(&self) -> Value {
    json!((0..self.next_type).map(|i| self.type_strs.get(&i).cloned().unwrap_or_default()).collect::<Vec<String>>())
  }

  fn fnames_json(&self) -> Value {
    json!((0..self.next_fname).map(|i| self.fname_strs.get(&i).cloned().unwrap_or_default()).collect::<Vec<String>>())
  }

  fn names_json(&self) -> Value {
    json!((0..self.next_name).map(|i| self.name_strs.get(&i).cloned().unwrap_or_default()).collect::<Vec<String>>())
  }
}

struct Enc<'a> {
  tb: &'a mut Tables,
  heap: &'a Heap,
  table: &'a SymbolTable,
}

impl Enc<'_> {
  fn ty(&mut self, t: &Type) -> usize {
    let key = format!("{t:?}");
    if let Some(n) = self.tb.types.get(&key) {
      return *n;
    }
    let n = self.tb.next_type;
    self.tb.next_type += 1;
    let (heap, table) = (self.heap, self.table);
    let pretty = catch_unwind(AssertUnwindSafe(|| t.pretty_print(heap, table))).unwrap_or_else(|_| key.clone());
    self.tb.types.insert(key, n);
    self.tb.type_strs.insert(n, pretty);
    n
  }

  fn fty(&mut self, t: &FunctionType) -> usize {
    let key = format!("fn:{t:?}");
    if let Some(n) = self.tb.types.get(&key) {
      return *n;
    }
    let n = self.tb.next_type;
    self.tb.next_type += 1;
    let (heap, table) = (self.heap, self.table);
    let pretty = catch_unwind(AssertUnwindSafe(|| t.pretty_print(heap, table))).unwrap_or_else(|_| key.clone());
    self.tb.types.insert(key, n);
    self.tb.type_strs.insert(n, pretty);
    n
  }

  fn fname(&mut self, f: &FunctionName) -> usize {
    if let Some(n) = self.tb.fnames.get(f) {
      return *n;
    }
    let n = self.tb.next_fname;
    self.tb.next_fname += 1;
    let (heap, table) = (self.heap, self.table);
    let s = catch_unwind(AssertUnwindSafe(|| f.encoded_for_test(heap, table))).unwrap_or_else(|_| "<fn>".to_string());
    self.tb.fnames.insert(*f, n);
    self.tb.fname_strs.insert(n, s);
    n
  }

  fn name(&mut self, p: PStr) -> u64 {
    if let Some(n) = self.tb.names.get(&p) {
      return *n;
    }
    if self.tb.replay {
      let s = p.as_str(self.heap);
      let known = match parse_v(s) {
        Some(k) => Some(k),
        None => s.strip_prefix("_tailrec_param_").and_then(parse_v).map(|k| TP_BASE + k),
      };
      if let Some(n) = known {
        self.tb.names.insert(p, n);
        return n;
      }
    }
    self.tb.add_name(self.heap, p)
  }

  fn expr(&mut self, e: &Expression) -> Value {
    match e {
      Expression::Int32Literal(i) => json!(["i", i]),
      Expression::Int31Literal(i) => json!(["j", i]),
      Expression::StringName(n) => json!(["s", self.name(*n)]),
      Expression::Variable(v) => {
        let n = self.name(v.name);
        let t = self.ty(&v.type_);
        json!(["v", n, t])
      }
    }
  }

  fn exprs(&mut self, es: &[Expression]) -> Value {
    Value::Array(es.iter().map(|e| self.expr(e)).collect())
  }

  fn tys(&mut self, ts: &[Type]) -> Value {
    Value::Array(ts.iter().map(|t| json!(self.ty(t))).collect())
  }

  fn callee(&mut self, c: &Callee) -> Value {
    match c {
      Callee::FunctionName(f) => {
        let n = self.fname(&f.name);
        let atys = self.tys(&f.type_.argument_types);
        let rty = self.ty(&f.type_.return_type);
        json!(["fn", n, atys, rty])
      }
      Callee::Variable(v) => {
        let n = self.name(v.name);
        let t = self.ty(&v.type_);
        json!(["var", n, t])
      }
    }
  }

  fn stmts(&mut self, ss: &[Statement]) -> Value {
    Value::Array(ss.iter().map(|s| self.stmt(s)).collect())
  }

  fn stmt(&mut self, s: &Statement) -> Value {
    match s {
      Statement::Binary(Binary { name, operator, e1, e2 }) => {
        let n = self.name(*name);
        let (a, b) = (self.expr(e1), self.expr(e2));
        json!(["bin", n, op_name(*operator), a, b])
      }
      Statement::Not { name, operand } => {
        let n = self.name(*name);
        let e = self.expr(operand);
        json!(["not", n, e])
      }
      Statement::IsPointer { name, pointer_type, operand } => {
        let n = self.name(*name);
        let t = self.ty(&Type::Id(*pointer_type));
        let e = self.expr(operand);
        json!(["prim", n, "isptr", t, 0, e])
      }
      Statement::IndexedAccess { name, type_, pointer_expression, index } => {
        let n = self.name(*name);
        let t = self.ty(type_);
        let e = self.expr(pointer_expression);
        json!(["prim", n, "idx", t, index, e])
      }
      Statement::Cast { name, type_, assigned_expression } => {
        let n = self.name(*name);
        let t = self.ty(type_);
        let e = self.expr(assigned_expression);
        json!(["prim", n, "cast", t, 0, e])
      }
      Statement::Call { callee, arguments, return_type, return_collector } => {
        let c = self.callee(callee);
        let args = self.exprs(arguments);
        let t = self.ty(return_type);
        let rc = return_collector.map(|c| self.name(c));
        json!(["call", c, args, t, rc])
      }
      Statement::IfElse { condition, s1, s2, final_assignments } => {
        let c = self.expr(condition);
        let (b1, b2) = (self.stmts(s1), self.stmts(s2));
        let mut fas = Vec::new();
        for fa in final_assignments {
          let n = self.name(fa.name);
          let t = self.ty(&fa.type_);
          let (a, b) = (self.expr(&fa.e1), self.expr(&fa.e2));
          fas.push(json!([n, t, a, b]));
        }
        json!(["if", c, b1, b2, fas])
      }
      Statement::SingleIf { condition, invert_condition, statements } => {
        let c = self.expr(condition);
        let b = self.stmts(statements);
        json!(["sif", c, invert_condition, b])
      }
      Statement::Break(e) => json!(["brk", self.expr(e)]),
      Statement::While { loop_variables, statements, break_collector } => {
        let mut lvs = Vec::new();
        for v in loop_variables {
          let n = self.name(v.name);
          let t = self.ty(&v.type_);
          let (a, b) = (self.expr(&v.initial_value), self.expr(&v.loop_value));
          lvs.push(json!([n, t, a, b]));
        }
        let b = self.stmts(statements);
        let bc = match break_collector {
          Some(c) => {
            let n = self.name(c.name);
            let t = self.ty(&c.type_);
            json!([n, t])
          }
          None => Value::Null,
        };
        json!(["while", lvs, b, bc])
      }
      Statement::LateInitDeclaration { name, type_ } => {
        let n = self.name(*name);
        let t = self.ty(type_);
        json!(["decl", n, t])
      }
      Statement::LateInitAssignment { name, assigned_expression } => {
        let n = self.name(*name);
        let e = self.expr(assigned_expression);
        json!(["assign", n, e])
      }
      Statement::StructInit { struct_variable_name, type_name, expression_list } => {
        let n = self.name(*struct_variable_name);
        let t = self.ty(&Type::Id(*type_name));
        let es = self.exprs(expression_list);
        json!(["struct", n, t, es])
      }
      Statement::ClosureInit { closure_variable_name, closure_type_name, function_name, context } => {
        let n = self.name(*closure_variable_name);
        let t = self.ty(&Type::Id(*closure_type_name));
        let f = self.fname(&function_name.name);
        let ft = self.fty(&function_name.type_);
        let e = self.expr(context);
        json!(["closure", n, t, f, ft, e])
      }
    }
  }

  fn function(&mut self, f: &Function) -> Value {
    let name = self.fname(&f.name);
    let params: Vec<u64> = f.parameters.iter().map(|p| self.name(*p)).collect();
    let atys = self.tys(&f.type_.argument_types);
    let rty = self.ty(&f.type_.return_type);
    let body = self.stmts(&f.body);
    let ret = self.expr(&f.return_value);
    json!({"name": name, "params": params, "atys": atys, "rty": rty, "body": body, "ret": ret})
  }

  fn functions(&mut self, fs: &[Function]) -> Vec<Value> {
    fs.iter().map(|f| self.function(f)).collect()
  }
}

// ------------------------------------------------------------------------------------------------
// the tailrec stage on one function, with the list of the temporaries it allocated
// ------------------------------------------------------------------------------------------------

/// `Heap::alloc_temp_str` makes "_t<id>" with id = the length of the heap's string table; peeking costs one id.
fn peek_temp(heap: &mut Heap) -> u64 {
  let p = heap.alloc_temp_str();
  temp_id(p.as_str(heap)).unwrap_or(0)
}

/// The name the stage gives to the new parameter that replaces `x`. Interning it BEFORE the stage runs makes
/// the stage's own `alloc_string` a pure lookup, so that every id between two peeks is a temporary.
fn tailrec_param(heap: &mut Heap, x: PStr) -> PStr {
  let s = format!("_tailrec_param_{}", x.as_str(heap));
  heap.alloc_string(s)
}

struct StageRun {
  after: Result<Function, String>,
  allocated: Vec<PStr>,
}

fn run_tailrec(heap: &mut Heap, g: &Function) -> StageRun {
  for x in &g.parameters {
    tailrec_param(heap, *x);
  }
  let a = peek_temp(heap);
  let input = g.clone();
  let after = catch_unwind(AssertUnwindSafe(|| hooks::tail_rec_rewrite(heap, input))).map_err(panic_msg);
  let b = peek_temp(heap);
  let allocated = (a + 1..b).map(|id| heap.alloc_string(format!("_t{id}"))).collect();
  StageRun { after, allocated }
}

// ------------------------------------------------------------------------------------------------
// kind (1): real programs
// ------------------------------------------------------------------------------------------------

enum Lowered {
  Rejected,
  Panic(String),
  /// the MIR before the two rewrites and, if asked for, what the real `compile_sources_to_mir` makes of the
  /// same checked sources in the same heap (or the message of its panic)
  Ok(Sources, Option<Result<Sources, String>>),
}

/// Front end as in `vh mir-dump`, then the stages before the two rewrites (hook) and, with `with_pipeline`, the
/// whole `compile_sources_to_mir` on the SAME checked sources and heap: the numbers in the synthetic names
/// (`_$SyntheticIDType<k>`, `$GenFn$<k>`) follow the iteration order of that one HashMap of checked modules, so a
/// second front-end run would number them differently.
fn lower(job: &Value, with_pipeline: bool) -> (Heap, ModuleReference, Lowered) {
  let mut heap = Heap::new();
  let texts = load_sources(&mut heap, job);
  let entry = mod_ref(&mut heap, job["entry"].as_str().unwrap_or(""));
  let lowered = catch_unwind(AssertUnwindSafe(|| {
    let mut error_set = samlang_errors::ErrorSet::new();
    let mut parsed = HashMap::new();
    for (m, text) in &texts {
      parsed.insert(*m, samlang_parser::parse_source_module_from_text(text, *m, &mut heap, &mut error_set));
    }
    let checked = samlang_checker::type_check_sources(&parsed, &mut error_set).0;
    if error_set.has_errors() || !parsed.contains_key(&entry) {
      return None;
    }
    let staged = hooks::compile_sources_to_mir_before_rewrites(&mut heap, &checked);
    let real = if with_pipeline {
      Some(catch_unwind(AssertUnwindSafe(|| samlang_compiler::compile_sources_to_mir(&mut heap, &checked))).map_err(panic_msg))
    } else {
      None
    };
    Some((staged, real))
  }));
  let lowered = match lowered {
    Ok(Some((s, r))) => Lowered::Ok(s, r),
    Ok(None) => Lowered::Rejected,
    Err(p) => Lowered::Panic(panic_msg(p)),
  };
  (heap, entry, lowered)
}

/// every maximal `_t<digits>` becomes `_t#`
fn normalize_temps(s: &str) -> String {
  let b = s.as_bytes();
  let mut out = String::with_capacity(s.len());
  let mut i = 0;
  let mut start = 0;
  while i < b.len() {
    if b[i] == b'_' && i + 2 < b.len() && b[i + 1] == b't' && b[i + 2].is_ascii_digit() {
      out.push_str(&s[start..i]);
      out.push_str("_t#");
      i += 2;
      while i < b.len() && b[i].is_ascii_digit() {
        i += 1;
      }
      start = i;
    } else {
      i += 1;
    }
  }
  out.push_str(&s[start..]);
  out
}

fn function_texts(heap: &Heap, table: &SymbolTable, fs: &[Function]) -> Vec<(String, String)> {
  fs.iter()
    .map(|f| {
      let name = catch_unwind(AssertUnwindSafe(|| f.name.encoded_for_test(heap, table))).unwrap_or_else(|_| "<fn>".to_string());
      let text = catch_unwind(AssertUnwindSafe(|| f.debug_print(heap, table))).unwrap_or_else(|_| "<debug_print panic>".to_string());
      (name, normalize_temps(&text))
    })
    .collect()
}

/// (same, first difference): every function of the staged run has the text of the function of the same name of
/// the real pipeline (after `_t<digits>` -> `_t#`), and the real pipeline has no other function.
fn compare_with_pipeline(heap: &Heap, real: &Result<Sources, String>, staged: &[(String, String)]) -> (Value, Value) {
  let real = match real {
    Ok(s) => s,
    Err(m) => return (json!(false), json!(format!("<pipeline panic: {m}>"))),
  };
  let real_texts = function_texts(heap, &real.symbol_table, &real.functions);
  let by_name: HashMap<&str, &str> = real_texts.iter().map(|(n, t)| (n.as_str(), t.as_str())).collect();
  if by_name.len() != real_texts.len() {
    return (json!(false), json!("<pipeline: two functions with the same name>"));
  }
  for (name, text) in staged {
    match by_name.get(name.as_str()) {
      Some(t) if *t == text.as_str() => {}
      _ => return (json!(false), json!(name)),
    }
  }
  if staged.len() != real_texts.len() {
    let mine: std::collections::HashSet<&str> = staged.iter().map(|(n, _)| n.as_str()).collect();
    let extra = real_texts.iter().map(|(n, _)| n.as_str()).find(|n| !mine.contains(n)).unwrap_or("<function count>");
    return (json!(false), json!(extra));
  }
  (json!(true), Value::Null)
}

fn dump_sources(job: &Value) -> Value {
  let id = job["id"].clone();
  let fuel = job["fuel"].as_u64().unwrap_or(200_000);
  let do_run = job["run"].as_bool().unwrap_or(true);
  let check_pipeline = job["check_pipeline"].as_bool().unwrap_or(true);
  let options = MirOptions { parallel_loops: job["parallel_loops"].as_bool().unwrap_or(false) };
  let (mut heap, entry, lowered) = lower(job, check_pipeline);
  let (s0, real) = match lowered {
    Lowered::Ok(s, r) => (s, r),
    Lowered::Rejected => return json!({"id": id, "rejected": true}),
    Lowered::Panic(m) => return json!({"id": id, "lowering_panic": m}),
  };
  let main = catch_unwind(AssertUnwindSafe(|| mirsem::find_main(&heap, &s0, entry))).ok().flatten();
  let run = |heap: &Heap, sources: &Sources| -> Value {
    let outcome = match &main {
      Some(m) => mirsem::run_mir_with(heap, sources, m, fuel, 2000, options),
      None => MirOutcome {
        lines: Vec::new(),
        ending: MirEnding::Fault("entry module has no Main.main".to_string()),
        overflowed: false,
      },
    };
    mirsem::outcome_json(&outcome)
  };
  let mut tb = Tables::new(false);
  let mut runs = serde_json::Map::new();

  // ---- before constant parameter elimination
  let p0 = s0.functions.clone();
  let cpe_before = Enc { tb: &mut tb, heap: &heap, table: &s0.symbol_table }.functions(&p0);
  let main_number = main.as_ref().map(|m| Enc { tb: &mut tb, heap: &heap, table: &s0.symbol_table }.fname(m));
  if do_run {
    runs.insert("before_cpe".to_string(), run(&heap, &s0));
  }

  // ---- constant parameter elimination
  let s1 = match catch_unwind(AssertUnwindSafe(|| hooks::constant_param_elimination(s0))) {
    Ok(s) => s,
    Err(p) => {
      let mut out = json!({"id": id, "types": tb.types_json(), "fnames": tb.fnames_json(), "names": tb.names_json(),
                           "cpe": {"before": cpe_before}, "main": main_number, "cpe_panic": panic_msg(p)});
      if do_run {
        out["runs"] = Value::Object(runs);
      }
      return out;
    }
  };
  let p1 = s1.functions.clone();
  let cpe_after = Enc { tb: &mut tb, heap: &heap, table: &s1.symbol_table }.functions(&p1);
  if do_run {
    runs.insert("after_cpe".to_string(), run(&heap, &s1));
  }

  // ---- names "_tailrec_param_<x>"
  let mut tp: Vec<Value> = Vec::new();
  let mut tp_seen = std::collections::HashSet::new();
  for g in &p1 {
    for x in &g.parameters {
      let t = tailrec_param(&mut heap, *x);
      let xn = tb.add_name(&heap, *x);
      let tn = tb.add_name(&heap, t);
      if tp_seen.insert(xn) {
        tp.push(json!([xn, tn]));
      }
    }
  }

  // ---- tail recursion rewrite, function after function
  let mut p2: Vec<Function> = Vec::new();
  let mut stage_runs: Vec<(Option<String>, Vec<u64>, u64)> = Vec::new();
  for g in &p1 {
    let StageRun { after, allocated } = run_tailrec(&mut heap, g);
    let k = tb.next_name;
    let fresh: Vec<u64> = allocated.iter().map(|n| tb.add_name(&heap, *n)).collect();
    match after {
      Ok(g2) => {
        p2.push(g2);
        stage_runs.push((None, fresh, k));
      }
      Err(m) => {
        p2.push(g.clone());
        stage_runs.push((Some(m), fresh, k));
      }
    }
  }
  let s2 = Sources { functions: p2, ..s1 };
  let mut tailrec = Vec::new();
  {
    let mut enc = Enc { tb: &mut tb, heap: &heap, table: &s2.symbol_table };
    for (i, (panic, fresh, k)) in stage_runs.into_iter().enumerate() {
      let fname = enc.fname(&p1[i].name);
      let name = enc.tb.fname_strs.get(&fname).cloned().unwrap_or_default();
      let before = cpe_after[i].clone();
      tailrec.push(match panic {
        Some(m) => json!({"fname": fname, "name": name, "before": before, "panic": m, "fresh": fresh, "k": k}),
        None => {
          let after = enc.function(&s2.functions[i]);
          let changed = after != before;
          json!({"fname": fname, "name": name, "before": before, "after": after, "fresh": fresh, "k": k, "changed": changed})
        }
      });
    }
  }
  if do_run {
    runs.insert("after_tailrec".to_string(), run(&heap, &s2));
  }

  // ---- is the staged run what the real pipeline does?
  let (pipeline_same, pipeline_diff) = match &real {
    Some(real) => {
      let staged = function_texts(&heap, &s2.symbol_table, &s2.functions);
      compare_with_pipeline(&heap, real, &staged)
    }
    None => (Value::Null, Value::Null),
  };

  let mut out = json!({"id": id, "types": tb.types_json(), "fnames": tb.fnames_json(), "names": tb.names_json(), "tp": tp,
                       "cpe": {"before": cpe_before, "after": cpe_after}, "tailrec": tailrec, "main": main_number,
                       "pipeline_same": pipeline_same, "pipeline_diff": pipeline_diff});
  if do_run {
    out["runs"] = Value::Object(runs);
  }
  out
}

// ------------------------------------------------------------------------------------------------
// kind (2): replay of model terms on the real stages
// ------------------------------------------------------------------------------------------------

struct Dec {
  heap: Heap,
  table: SymbolTable,
  /// type NAME of the number t ("T<t>"), created in increasing order of t so that `Type::cmp` is the numeric order
  ids: Vec<TypeNameId>,
  tb: Tables,
}

impl Dec {
  fn new() -> Dec {
    let mut d = Dec { heap: Heap::new(), table: SymbolTable::new(), ids: Vec::new(), tb: Tables::new(true) };
    d.tb.types.insert(format!("{:?}", INT_32_TYPE), 0);
    d.tb.types.insert(format!("{:?}", INT_31_TYPE), 1);
    d.id(1);
    d
  }

  fn num(v: &Value) -> u64 {
    v.as_u64().unwrap_or(0)
  }

  fn name(&mut self, v: &Value) -> PStr {
    let n = Self::num(v);
    let p = self.heap.alloc_string(format!("V{n:07}"));
    self.tb.names.insert(p, n);
    p
  }

  fn id(&mut self, n: u64) -> TypeNameId {
    let n = n as usize;
    while self.ids.len() <= n {
      let k = self.ids.len();
      let name = self.heap.alloc_string(format!("T{k}"));
      let id = self.table.create_type_name_for_test(name);
      self.tb.types.insert(format!("{:?}", Type::Id(id)), k);
      self.ids.push(id);
    }
    self.ids[n]
  }

  fn ty(&mut self, v: &Value) -> Type {
    match Self::num(v) {
      0 => INT_32_TYPE,
      1 => INT_31_TYPE,
      n => Type::Id(self.id(n)),
    }
  }

  fn tys(&mut self, v: &Value) -> Vec<Type> {
    v.as_array().map(|a| a.iter().map(|t| self.ty(t)).collect()).unwrap_or_default()
  }

  /// function type number ft: `() -> <type ft>`, one distinct function type per number
  fn fty(&mut self, v: &Value) -> FunctionType {
    let t = FunctionType { argument_types: Vec::new(), return_type: Box::new(self.ty(v)) };
    self.tb.types.insert(format!("fn:{t:?}"), Self::num(v) as usize);
    t
  }

  fn fname(&mut self, v: &Value) -> FunctionName {
    let n = Self::num(v);
    let f = FunctionName::new_for_test(self.heap.alloc_string(format!("f{n:05}")));
    self.tb.fnames.insert(f, n as usize);
    f
  }

  fn expr(&mut self, v: &Value) -> Expression {
    match v[0].as_str().unwrap_or("") {
      "i" => Expression::Int32Literal(v[1].as_i64().unwrap_or(0) as i32),
      "j" => Expression::Int31Literal(v[1].as_i64().unwrap_or(0) as i32),
      "s" => Expression::StringName(self.name(&v[1])),
      _ => Expression::Variable(VariableName { name: self.name(&v[1]), type_: self.ty(&v[2]) }),
    }
  }

  fn exprs(&mut self, v: &Value) -> Vec<Expression> {
    v.as_array().map(|a| a.iter().map(|e| self.expr(e)).collect()).unwrap_or_default()
  }

  fn callee(&mut self, v: &Value) -> Callee {
    match v[0].as_str().unwrap_or("") {
      "var" => Callee::Variable(VariableName { name: self.name(&v[1]), type_: self.ty(&v[2]) }),
      _ => Callee::FunctionName(FunctionNameExpression {
        name: self.fname(&v[1]),
        type_: FunctionType { argument_types: self.tys(&v[2]), return_type: Box::new(self.ty(&v[3])) },
      }),
    }
  }

  fn stmts(&mut self, v: &Value) -> Vec<Statement> {
    v.as_array().map(|a| a.iter().map(|s| self.stmt(s)).collect()).unwrap_or_default()
  }

  fn opt_name(&mut self, v: &Value) -> Option<PStr> {
    if v.is_null() { None } else { Some(self.name(v)) }
  }

  fn stmt(&mut self, v: &Value) -> Statement {
    match v[0].as_str().unwrap_or("") {
      "bin" => {
        let op = OPS.iter().find(|(n, _)| Some(*n) == v[2].as_str()).map(|(_, o)| *o).unwrap_or(Op::PLUS);
        Statement::Binary(Binary { name: self.name(&v[1]), operator: op, e1: self.expr(&v[3]), e2: self.expr(&v[4]) })
      }
      "not" => Statement::Not { name: self.name(&v[1]), operand: self.expr(&v[2]) },
      "prim" => {
        let name = self.name(&v[1]);
        let e = self.expr(&v[5]);
        match v[2].as_str().unwrap_or("") {
          "idx" => Statement::IndexedAccess {
            name,
            type_: self.ty(&v[3]),
            pointer_expression: e,
            index: v[4].as_u64().unwrap_or(0) as usize,
          },
          "isptr" => Statement::IsPointer { name, pointer_type: self.id(Self::num(&v[3])), operand: e },
          _ => Statement::Cast { name, type_: self.ty(&v[3]), assigned_expression: e },
        }
      }
      "call" => Statement::Call {
        callee: self.callee(&v[1]),
        arguments: self.exprs(&v[2]),
        return_type: self.ty(&v[3]),
        return_collector: self.opt_name(&v[4]),
      },
      "if" => Statement::IfElse {
        condition: self.expr(&v[1]),
        s1: self.stmts(&v[2]),
        s2: self.stmts(&v[3]),
        final_assignments: v[4]
          .as_array()
          .map(|a| {
            a.iter()
              .map(|q| IfElseFinalAssignment { name: self.name(&q[0]), type_: self.ty(&q[1]), e1: self.expr(&q[2]), e2: self.expr(&q[3]) })
              .collect()
          })
          .unwrap_or_default(),
      },
      "sif" => Statement::SingleIf {
        condition: self.expr(&v[1]),
        invert_condition: v[2].as_bool().unwrap_or(false),
        statements: self.stmts(&v[3]),
      },
      "brk" => Statement::Break(self.expr(&v[1])),
      "while" => Statement::While {
        loop_variables: v[1]
          .as_array()
          .map(|a| {
            a.iter()
              .map(|q| GenenalLoopVariable {
                name: self.name(&q[0]),
                type_: self.ty(&q[1]),
                initial_value: self.expr(&q[2]),
                loop_value: self.expr(&q[3]),
              })
              .collect()
          })
          .unwrap_or_default(),
        statements: self.stmts(&v[2]),
        break_collector: if v[3].is_null() { None } else { Some(VariableName { name: self.name(&v[3][0]), type_: self.ty(&v[3][1]) }) },
      },
      "decl" => Statement::LateInitDeclaration { name: self.name(&v[1]), type_: self.ty(&v[2]) },
      "assign" => Statement::LateInitAssignment { name: self.name(&v[1]), assigned_expression: self.expr(&v[2]) },
      "struct" => Statement::StructInit {
        struct_variable_name: self.name(&v[1]),
        type_name: self.id(Self::num(&v[2])),
        expression_list: self.exprs(&v[3]),
      },
      "closure" => Statement::ClosureInit {
        closure_variable_name: self.name(&v[1]),
        closure_type_name: self.id(Self::num(&v[2])),
        function_name: FunctionNameExpression { name: self.fname(&v[3]), type_: self.fty(&v[4]) },
        context: self.expr(&v[5]),
      },
      other => panic!("bad statement tag {other:?}"),
    }
  }

  fn function(&mut self, index: usize, v: &Value) -> Function {
    let name = if v["name"].is_null() { self.fname(&json!(index)) } else { self.fname(&v["name"]) };
    let parameters: Vec<PStr> = v["params"].as_array().map(|a| a.iter().map(|p| self.name(p)).collect()).unwrap_or_default();
    let argument_types = if v["atys"].is_null() { vec![INT_32_TYPE; parameters.len()] } else { self.tys(&v["atys"]) };
    let return_type = Box::new(self.ty(&v["rty"]));
    Function {
      name,
      parameters,
      type_: FunctionType { argument_types, return_type },
      body: self.stmts(&v["body"]),
      return_value: self.expr(&v["ret"]),
    }
  }
}

fn replay(job: &Value) -> Value {
  let id = job["id"].clone();
  let stage = job["stage"].as_str().unwrap_or("both").to_string();
  if !matches!(stage.as_str(), "cpe" | "tailrec" | "both") {
    return json!({"id": id, "error": format!("unknown stage {stage}")});
  }
  let mut d = Dec::new();
  if let Some(n) = job["types_n"].as_u64()
    && n > 0
  {
    d.id(n - 1);
  }
  let functions: Vec<Function> =
    job["program"].as_array().map(|a| a.iter().enumerate().map(|(i, f)| d.function(i, f)).collect()).unwrap_or_default();
  let Dec { mut heap, table, ids: _, mut tb } = d;
  let mut sources = Sources {
    symbol_table: table,
    global_variables: Vec::new(),
    closure_types: Vec::new(),
    type_definitions: Vec::new(),
    main_function_names: Vec::new(),
    functions,
  };
  let mut out = json!({"id": id});

  if stage != "tailrec" {
    let before = Enc { tb: &mut tb, heap: &heap, table: &sources.symbol_table }.functions(&sources.functions);
    sources = match catch_unwind(AssertUnwindSafe(|| hooks::constant_param_elimination(sources))) {
      Ok(s) => s,
      Err(p) => {
        out["cpe"] = json!({"before": before});
        out["panic"] = json!(panic_msg(p));
        out["stage"] = json!("cpe");
        return out;
      }
    };
    let after = Enc { tb: &mut tb, heap: &heap, table: &sources.symbol_table }.functions(&sources.functions);
    out["cpe"] = json!({"before": before, "after": after});
  }

  // "tp": the parameters of the functions that enter the tailrec stage (of the final functions for "cpe")
  let mut tp: Vec<Value> = Vec::new();
  let mut tp_seen = std::collections::HashSet::new();
  for g in &sources.functions {
    for x in &g.parameters {
      let t = tailrec_param(&mut heap, *x);
      let mut enc = Enc { tb: &mut tb, heap: &heap, table: &sources.symbol_table };
      let (xn, tn) = (enc.name(*x), enc.name(t));
      if tp_seen.insert(xn) {
        tp.push(json!([xn, tn]));
      }
    }
  }
  out["tp"] = json!(tp);

  if stage != "cpe" {
    let p1 = std::mem::take(&mut sources.functions);
    let mut tailrec = Vec::new();
    let mut allocated_so_far: u64 = 0;
    for g in &p1 {
      let StageRun { after, allocated } = run_tailrec(&mut heap, g);
      let k = FRESH_BASE + allocated_so_far;
      let mut fresh = Vec::new();
      for n in &allocated {
        let number = FRESH_BASE + allocated_so_far;
        allocated_so_far += 1;
        tb.names.insert(*n, number);
        fresh.push(number);
      }
      let mut enc = Enc { tb: &mut tb, heap: &heap, table: &sources.symbol_table };
      let fname = enc.fname(&g.name);
      let before = enc.function(g);
      match after {
        Ok(g2) => {
          let after = enc.function(&g2);
          let changed = after != before;
          tailrec.push(json!({"fname": fname, "before": before, "after": after, "fresh": fresh, "k": k, "changed": changed}));
          sources.functions.push(g2);
        }
        Err(m) => {
          if out.get("panic").is_none() {
            out["panic"] = json!(m.clone());
            out["stage"] = json!("tailrec");
          }
          tailrec.push(json!({"fname": fname, "before": before, "panic": m, "fresh": fresh, "k": k}));
          sources.functions.push(g.clone());
        }
      }
    }
    out["tailrec"] = json!(tailrec);
  }

  let text = catch_unwind(AssertUnwindSafe(|| {
    sources.functions.iter().map(|f| f.debug_print(&heap, &sources.symbol_table)).collect::<Vec<String>>().join("\n")
  }));
  out["text_after"] = match text {
    Ok(t) => json!(t),
    Err(p) => json!(format!("<debug_print panic: {}>", panic_msg(p))),
  };
  out
}

pub fn main(_args: &[String]) {
  let stdin = std::io::stdin();
  for line in stdin.lock().lines() {
    let Ok(line) = line else { break };
    if line.trim().is_empty() {
      continue;
    }
    let result = match serde_json::from_str::<Value>(&line) {
      Ok(job) => catch_unwind(AssertUnwindSafe(|| if job.get("program").is_some() { replay(&job) } else { dump_sources(&job) }))
        .unwrap_or_else(|p| json!({"id": job["id"], "harness_panic": panic_msg(p)})),
      Err(e) => json!({"error": format!("bad job: {e}")}),
    };
    println!("{result}");
  }
}
