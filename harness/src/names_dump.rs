//! `vh names-dump` — layer B of the C03 slice on the passes that DELETE or MERGE definitions
//! (coq/theories/C03names, checks/c03_names.py):
//!   samlang-optimization/src/unused_name_elimination.rs     (MIR; hook samlang_optimization::verif::run_unused_name_elimination)
//!   samlang-compiler/src/lir_unused_name_elimination.rs     (LIR; hooks compile_mir_to_lir_before_elimination, lir_unused_name_elimination)
//!   samlang-compiler/src/mir_type_deduplication.rs          (MIR; hooks compile_sources_to_mir_before_dedup, type_deduplication)
//! The tool prints the whole real program immediately BEFORE and AFTER each pass as Gallina terms of
//! C03names/Syntax.v (msources / lsources), so that the Gallina mirror of the pass can be run on `before`
//! inside coqc and compared with `after`, and so that the verified validators (`lir_no_dangling`, ..) can be
//! evaluated on every real output - in particular on the FINAL LIR, which is what the WebAssembly emitter consumes.
//!
//! One JSON job per line on stdin, one JSON result per line:
//!   {"id":.., "sources": {"Mod": text, ..}, "entry": "Mod",
//!    "stages": ["spec", "dedup", "mir-raw", "mir-pipeline", "lir"] (default: all)}
//!   -> {"id", "fnames": [text..], "stages": [ST..]} | {"id", "rejected": true} | {"id", "lowering_panic": msg}
//!   ST = {"kind": "mir-elim", "where": "raw" | "round<k>", "before": G, "after_names": NM, "sub_vector": bool}
//!      | {"kind": "lir-elim", "where": "final", "hook": true,  "before": G, "after_names": NM, "sub_vector": bool}
//!      | {"kind": "spec", "builtin_fns": [f..], "fname_text": {f: encoded name}, "before": G (only when "dedup" is not requested:
//!         otherwise it is the "before" of the "dedup" stage)}   the program right after generics specialisation
//!      | {"kind": "dedup", "before": G, "after": G, "derive": [[parent, tag, sub]..], "parents_after": [[sub, parent]..]}
//!      | {"kind": .., "panic": msg, ..}
//!   NM = {"globals": [n..], "closures": [n..], "typedefs": [n..], "funcs": [n..], "mains": [n..]}
//!   "sub_vector": the real output is, definition by definition (compared through the encoded text), the
//!   sub-vector of `before` selected by the names in NM, in the same order; checks rebuild `after` from `before`
//!   and NM when it is true and report a disagreement when it is false.
//!
//!   {"id":.., "synthetic": "decl" | "fty" | "parent"}  builds one of three hand-made mir::Sources (the blind spots of the MIR
//!   pass named in C03names/Spec.v: the type of a LateInitDeclaration, the FunctionType attached to a function name, the
//!   payload type of an enum that is only kept as the parent of a used sub-type), runs the real MIR elimination on it
//!   ("mir-elim", where "synthetic") and then the real LIR lowering + elimination ("lir-elim").
//!
//! ENCODING.  Type names are the u32 inside TypeNameId (read from its Debug text).  Function names get one number
//! per distinct FunctionName of the job (`mkfn number class`), variables and string constants one number per
//! distinct PStr of the job.  `ms_subs` lists, for every type name that occurs in the program and was made by
//! `derived_type_name_with_subtype_tag`, its (parent, tag): the parent through `get_parent_type_if_subtype`, the tag
//! from the `$_Sub<tag>` suffix of its encoded name.
//! "mir-pipeline" re-plays samlang_optimization::optimize_sources (ALL_ENABLED_CONFIGURATION) through the
//! hooks run_function_rounds / run_inlining and dumps around each of its four calls of the elimination.
use crate::front::{load_sources, mod_ref, panic_msg};
use samlang_ast::hir::BinaryOperator as Op;
use samlang_ast::{lir, mir};
use samlang_heap::{Heap, ModuleReference, PStr};
use samlang_optimization::verif as ohooks;
use serde_json::{Value, json};
use std::collections::{BTreeMap, BTreeSet, HashMap};
use std::fmt::Write;
use std::io::BufRead;
use std::panic::{AssertUnwindSafe, catch_unwind};

fn op_name(op: Op) -> &'static str {
  match op {
    Op::MUL => "MUL",
    Op::DIV => "DIV",
    Op::MOD => "MOD",
    Op::PLUS => "PLUS",
    Op::MINUS => "MINUS",
    Op::LAND => "LAND",
    Op::LOR => "LOR",
    Op::SHL => "SHL",
    Op::SHR => "SHR",
    Op::XOR => "XOR",
    Op::LT => "LT",
    Op::LE => "LE",
    Op::GT => "GT",
    Op::GE => "GE",
    Op::EQ => "EQ",
    Op::NE => "NE",
  }
}

fn tnum(id: mir::TypeNameId) -> u32 {
  let s = format!("{id:?}");
  s.trim_start_matches("TypeNameId(").trim_end_matches(')').parse::<u32>().unwrap()
}

#[derive(Default)]
struct Tb {
  names: HashMap<PStr, u64>,
  fnames: HashMap<mir::FunctionName, u64>,
  fname_list: Vec<mir::FunctionName>,
  /// every type name seen while encoding
  seen: BTreeMap<u32, mir::TypeNameId>,
}

impl Tb {
  fn name(&mut self, p: PStr) -> u64 {
    let next = self.names.len() as u64 + 1;
    *self.names.entry(p).or_insert(next)
  }

  fn tn(&mut self, id: mir::TypeNameId) -> u32 {
    let n = tnum(id);
    self.seen.insert(n, id);
    n
  }

  fn fid(&mut self, f: &mir::FunctionName) -> u64 {
    if let Some(n) = self.fnames.get(f) {
      return *n;
    }
    let n = self.fnames.len() as u64 + 1;
    self.fnames.insert(*f, n);
    self.fname_list.push(*f);
    n
  }

  fn fname(&mut self, f: &mir::FunctionName) -> String {
    let n = self.fid(f);
    let c = self.tn(f.type_name);
    format!("(mkfn {n} {c})")
  }
}

fn z(i: i32) -> String {
  if i < 0 { format!("({i})%Z") } else { format!("{i}%Z") }
}

fn list(items: Vec<String>) -> String {
  format!("[{}]", items.join("; "))
}

fn opt(o: Option<String>) -> String {
  match o {
    Some(s) => format!("(Some {s})"),
    None => "None".to_string(),
  }
}

// ------------------------------------------------------------------------------------------------ MIR
struct MEnc<'a> {
  tb: &'a mut Tb,
}

impl MEnc<'_> {
  fn ty(&mut self, t: &mir::Type) -> String {
    match t {
      mir::Type::Int32 => "MInt32".to_string(),
      mir::Type::Int31 => "MInt31".to_string(),
      mir::Type::Id(n) => format!("(MId {})", self.tb.tn(*n)),
    }
  }

  fn fty(&mut self, t: &mir::FunctionType) -> String {
    let args = t.argument_types.iter().map(|t| self.ty(t)).collect();
    format!("(mkmfty {} {})", list(args), self.ty(&t.return_type))
  }

  fn expr(&mut self, e: &mir::Expression) -> String {
    match e {
      mir::Expression::Int32Literal(i) => format!("(MEInt {})", z(*i)),
      mir::Expression::Int31Literal(i) => format!("(MEI31 {})", z(*i)),
      mir::Expression::StringName(n) => format!("(MEStr {})", self.tb.name(*n)),
      mir::Expression::Variable(v) => format!("(MEVar {} {})", self.tb.name(v.name), self.ty(&v.type_)),
    }
  }

  fn exprs(&mut self, es: &[mir::Expression]) -> String {
    list(es.iter().map(|e| self.expr(e)).collect())
  }

  fn stmts(&mut self, ss: &[mir::Statement]) -> String {
    list(ss.iter().map(|s| self.stmt(s)).collect())
  }

  fn stmt(&mut self, s: &mir::Statement) -> String {
    use mir::Statement as S;
    match s {
      S::IsPointer { name, pointer_type, operand } => {
        format!("MIsPointer {} {} {}", self.tb.name(*name), self.tb.tn(*pointer_type), self.expr(operand))
      }
      S::Not { name, operand } => format!("MNot {} {}", self.tb.name(*name), self.expr(operand)),
      S::Binary(mir::Binary { name, operator, e1, e2 }) => {
        format!("MBinary {} {} {} {}", self.tb.name(*name), op_name(*operator), self.expr(e1), self.expr(e2))
      }
      S::IndexedAccess { name, type_, pointer_expression, index } => {
        format!("MIndexedAccess {} {} {} {}", self.tb.name(*name), self.ty(type_), self.expr(pointer_expression), index)
      }
      S::Call { callee, arguments, return_type, return_collector } => {
        let c = match callee {
          mir::Callee::FunctionName(f) => format!("(MCFn {} {})", self.tb.fname(&f.name), self.fty(&f.type_)),
          mir::Callee::Variable(v) => format!("(MCVar {} {})", self.tb.name(v.name), self.ty(&v.type_)),
        };
        let rc = opt(return_collector.map(|p| self.tb.name(p).to_string()));
        format!("MCall {} {} {} {}", c, self.exprs(arguments), self.ty(return_type), rc)
      }
      S::IfElse { condition, s1, s2, final_assignments } => {
        let fas = final_assignments
          .iter()
          .map(|a| format!("mkmq {} {} {} {}", self.tb.name(a.name), self.ty(&a.type_), self.expr(&a.e1), self.expr(&a.e2)))
          .collect();
        format!("MIfElse {} {} {} {}", self.expr(condition), self.stmts(s1), self.stmts(s2), list(fas))
      }
      S::SingleIf { condition, invert_condition, statements } => {
        format!("MSingleIf {} {} {}", self.expr(condition), invert_condition, self.stmts(statements))
      }
      S::Break(e) => format!("MBreak {}", self.expr(e)),
      S::While { loop_variables, statements, break_collector } => {
        let lvs = loop_variables
          .iter()
          .map(|v| {
            format!(
              "mkmq {} {} {} {}",
              self.tb.name(v.name),
              self.ty(&v.type_),
              self.expr(&v.initial_value),
              self.expr(&v.loop_value)
            )
          })
          .collect();
        let bc = opt(break_collector.as_ref().map(|v| format!("({}, {})", self.tb.name(v.name), self.ty(&v.type_))));
        format!("MWhile {} {} {}", list(lvs), self.stmts(statements), bc)
      }
      S::Cast { name, type_, assigned_expression } => {
        format!("MCast {} {} {}", self.tb.name(*name), self.ty(type_), self.expr(assigned_expression))
      }
      S::LateInitDeclaration { name, type_ } => {
        format!("MLateInitDeclaration {} {}", self.tb.name(*name), self.ty(type_))
      }
      S::LateInitAssignment { name, assigned_expression } => {
        format!("MLateInitAssignment {} {}", self.tb.name(*name), self.expr(assigned_expression))
      }
      S::StructInit { struct_variable_name, type_name, expression_list } => {
        format!("MStructInit {} {} {}", self.tb.name(*struct_variable_name), self.tb.tn(*type_name), self.exprs(expression_list))
      }
      S::ClosureInit { closure_variable_name, closure_type_name, function_name, context } => {
        format!(
          "MClosureInit {} {} {} {} {}",
          self.tb.name(*closure_variable_name),
          self.tb.tn(*closure_type_name),
          self.tb.fname(&function_name.name),
          self.fty(&function_name.type_),
          self.expr(context)
        )
      }
    }
  }

  fn function(&mut self, f: &mir::Function) -> String {
    let params = list(f.parameters.iter().map(|p| self.tb.name(*p).to_string()).collect());
    format!(
      "mkmfunc {} {} {} {} {}",
      self.tb.fname(&f.name),
      params,
      self.fty(&f.type_),
      self.stmts(&f.body),
      self.expr(&f.return_value)
    )
  }

  fn typedef(&mut self, d: &mir::TypeDefinition) -> String {
    let m = match &d.mappings {
      mir::TypeDefinitionMappings::Struct(ts) => format!("(MStruct {})", list(ts.iter().map(|t| self.ty(t)).collect())),
      mir::TypeDefinitionMappings::Enum(vs) => {
        let vs = vs
          .iter()
          .map(|v| match v {
            mir::EnumTypeDefinition::Boxed(ts) => format!("VBoxed {}", list(ts.iter().map(|t| self.ty(t)).collect())),
            mir::EnumTypeDefinition::Unboxed(t) => format!("VUnboxed {}", self.tb.tn(*t)),
            mir::EnumTypeDefinition::Int31 => "VInt31".to_string(),
          })
          .collect();
        format!("(MEnum {})", list(vs))
      }
    };
    format!("mkmtd {} {}", self.tb.tn(d.name), m)
  }

  fn closure(&mut self, d: &mir::ClosureTypeDefinition) -> String {
    format!("mkmcd {} {}", self.tb.tn(d.name), self.fty(&d.function_type))
  }
}

/// the five vectors of a mir::Sources, definition by definition
struct MParts {
  globals: Vec<(u64, String)>,
  closures: Vec<(u64, String)>,
  typedefs: Vec<(u64, String)>,
  mains: Vec<String>,
  main_ids: Vec<u64>,
  funcs: Vec<(u64, String)>,
}

fn mir_parts(tb: &mut Tb, s: &mir::Sources) -> MParts {
  let globals = s.global_variables.iter().map(|g| (tb.name(g.0), tb.name(g.0).to_string())).collect();
  let closures = s.closure_types.iter().map(|d| (tnum(d.name) as u64, MEnc { tb }.closure(d))).collect();
  let typedefs = s.type_definitions.iter().map(|d| (tnum(d.name) as u64, MEnc { tb }.typedef(d))).collect();
  let mains = s.main_function_names.iter().map(|f| tb.fname(f)).collect();
  let main_ids = s.main_function_names.iter().map(|f| tb.fid(f)).collect();
  let funcs = s.functions.iter().map(|f| (tb.fid(&f.name), MEnc { tb }.function(f))).collect();
  MParts { globals, closures, typedefs, mains, main_ids, funcs }
}

const BUILTIN_FNS: [mir::FunctionName; 21] = [
  mir::FunctionName::PROCESS_PRINTLN,
  mir::FunctionName::PROCESS_PANIC,
  mir::FunctionName::STR_FROM_INT,
  mir::FunctionName::STR_TO_INT,
  mir::FunctionName::STR_CONCAT,
  mir::FunctionName::STR_EQ,
  mir::FunctionName::VEC_EMPTY,
  mir::FunctionName::VEC_OF,
  mir::FunctionName::VEC_WITH_CAPACITY,
  mir::FunctionName::VEC_LENGTH,
  mir::FunctionName::VEC_CAPACITY,
  mir::FunctionName::VEC_RESERVE,
  mir::FunctionName::VEC_PUSH,
  mir::FunctionName::VEC_POP,
  mir::FunctionName::VEC_GET,
  mir::FunctionName::VEC_SET,
  mir::FunctionName::VEC_EQ,
  mir::FunctionName::UNWRAP_I31,
  mir::FunctionName::BUILTIN_FREE,
  mir::FunctionName::BUILTIN_INC_REF,
  mir::FunctionName::BUILTIN_DEC_REF,
];

fn sub_tag(heap: &Heap, table: &mir::SymbolTable, id: mir::TypeNameId) -> Option<(String, u32)> {
  let n = tnum(id);
  if n == 1 || n == 3 {
    return None;
  }
  let enc = catch_unwind(AssertUnwindSafe(|| id.encoded_for_test(heap, table))).ok()?;
  let i = enc.rfind("$_Sub")?;
  let tag = enc[i + 5..].parse::<u32>().ok()?;
  Some((enc[..i].to_string(), tag))
}

/// (sub-type, (parent, tag)) for every type name seen so far that has a parent in the symbol table
fn subs_table(tb: &Tb, heap: &Heap, table: &mir::SymbolTable) -> Vec<(u32, u32, u32)> {
  let mut out = Vec::new();
  for (n, id) in &tb.seen {
    if let Some(p) = table.get_parent_type_if_subtype(*id)
      && let Some((_, tag)) = sub_tag(heap, table, *id)
    {
      out.push((*n, tnum(p), tag));
    }
  }
  out
}

fn subs_gallina(subs: &[(u32, u32, u32)]) -> String {
  list(subs.iter().map(|(s, p, t)| format!("({s}, ({p}, {t}))")).collect())
}

fn mir_gallina(p: &MParts, subs: &[(u32, u32, u32)]) -> String {
  format!(
    "mkms {} {} {} {} {} {}",
    list(p.globals.iter().map(|x| x.1.clone()).collect()),
    list(p.closures.iter().map(|x| x.1.clone()).collect()),
    list(p.typedefs.iter().map(|x| x.1.clone()).collect()),
    list(p.mains.clone()),
    list(p.funcs.iter().map(|x| x.1.clone()).collect()),
    subs_gallina(subs)
  )
}

/// is `after` the sub-vector of `before` selected by the names of `after`?
fn is_selected(before: &[(u64, String)], after: &[(u64, String)]) -> bool {
  let keep: BTreeSet<u64> = after.iter().map(|x| x.0).collect();
  let sel: Vec<&(u64, String)> = before.iter().filter(|x| keep.contains(&x.0)).collect();
  sel.len() == after.len() && sel.iter().zip(after.iter()).all(|(a, b)| **a == *b)
}

fn ids(v: &[(u64, String)]) -> Vec<u64> {
  v.iter().map(|x| x.0).collect()
}

fn mir_elim_stage(tb: &mut Tb, heap: &Heap, sources: &mut mir::Sources, place: &str) -> (Value, bool) {
  let before = mir_parts(tb, sources);
  let subs = subs_table(tb, heap, &sources.symbol_table);
  let g = mir_gallina(&before, &subs);
  let r = catch_unwind(AssertUnwindSafe(|| ohooks::run_unused_name_elimination(sources)));
  if let Err(p) = r {
    return (json!({"kind": "mir-elim", "where": place, "before": g, "panic": panic_msg(p)}), false);
  }
  let after = mir_parts(tb, sources);
  let sub_vector = is_selected(&before.globals, &after.globals)
    && is_selected(&before.closures, &after.closures)
    && is_selected(&before.typedefs, &after.typedefs)
    && is_selected(&before.funcs, &after.funcs)
    && before.mains == after.mains;
  let nm = json!({"globals": ids(&after.globals), "closures": ids(&after.closures), "typedefs": ids(&after.typedefs),
                  "funcs": ids(&after.funcs), "mains": after.main_ids});
  (
    json!({"kind": "mir-elim", "where": place, "before": g, "after_names": nm, "sub_vector": sub_vector,
           "sizes": [before.funcs.len(), after.funcs.len(), before.typedefs.len() + before.closures.len(),
                     after.typedefs.len() + after.closures.len(), before.globals.len(), after.globals.len()]}),
    true,
  )
}

// ------------------------------------------------------------------------------------------------ LIR
struct LEnc<'a> {
  tb: &'a mut Tb,
}

impl LEnc<'_> {
  fn ty(&mut self, t: &lir::Type) -> String {
    match t {
      lir::Type::Int32 => "LInt32".to_string(),
      lir::Type::Int31 => "LInt31".to_string(),
      lir::Type::AnyPointer => "LAny".to_string(),
      lir::Type::Id(n) => format!("(LId {})", self.tb.tn(*n)),
      lir::Type::Fn(f) => {
        let (a, r) = self.fty(f);
        format!("(LFn {a} {r})")
      }
    }
  }

  fn fty(&mut self, f: &lir::FunctionType) -> (String, String) {
    let args = f.argument_types.iter().map(|t| self.ty(t)).collect();
    (list(args), self.ty(&f.return_type))
  }

  fn expr(&mut self, e: &lir::Expression) -> String {
    match e {
      lir::Expression::Int32Literal(i) => format!("(LEInt {})", z(*i)),
      lir::Expression::Int31Literal(i) => format!("(LEI31 {})", z(*i)),
      lir::Expression::StringName(n) => format!("(LEStr {})", self.tb.name(*n)),
      lir::Expression::Variable(n, t) => format!("(LEVar {} {})", self.tb.name(*n), self.ty(t)),
      lir::Expression::FnName(f, t) => {
        let (a, r) = self.fty(t);
        format!("(LEFn {} {a} {r})", self.tb.fname(f))
      }
    }
  }

  fn exprs(&mut self, es: &[lir::Expression]) -> String {
    list(es.iter().map(|e| self.expr(e)).collect())
  }

  fn stmts(&mut self, ss: &[lir::Statement]) -> String {
    list(ss.iter().map(|s| self.stmt(s)).collect())
  }

  fn stmt(&mut self, s: &lir::Statement) -> String {
    use lir::Statement as S;
    match s {
      S::IsPointer { name, pointer_type, operand } => {
        format!("LIsPointer {} {} {}", self.tb.name(*name), self.tb.tn(*pointer_type), self.expr(operand))
      }
      S::Not { name, operand } => format!("LNot {} {}", self.tb.name(*name), self.expr(operand)),
      S::Binary { name, operator, e1, e2 } => {
        format!("LBinary {} {} {} {}", self.tb.name(*name), op_name(*operator), self.expr(e1), self.expr(e2))
      }
      S::IndexedAccess { name, type_, pointer_expression, index } => {
        format!("LIndexedAccess {} {} {} {}", self.tb.name(*name), self.ty(type_), self.expr(pointer_expression), index)
      }
      S::Call { callee, arguments, return_type, return_collector } => {
        let rc = opt(return_collector.map(|p| self.tb.name(p).to_string()));
        format!("LCall {} {} {} {}", self.expr(callee), self.exprs(arguments), self.ty(return_type), rc)
      }
      S::IfElse { condition, s1, s2, final_assignments } => {
        let fas = final_assignments
          .iter()
          .map(|(n, t, e1, e2)| format!("mklq {} {} {} {}", self.tb.name(*n), self.ty(t), self.expr(e1), self.expr(e2)))
          .collect();
        format!("LIfElse {} {} {} {}", self.expr(condition), self.stmts(s1), self.stmts(s2), list(fas))
      }
      S::SingleIf { condition, invert_condition, statements } => {
        format!("LSingleIf {} {} {}", self.expr(condition), invert_condition, self.stmts(statements))
      }
      S::Break(e) => format!("LBreak {}", self.expr(e)),
      S::While { loop_variables, statements, break_collector } => {
        let lvs = loop_variables
          .iter()
          .map(|v| {
            format!(
              "mklq {} {} {} {}",
              self.tb.name(v.name),
              self.ty(&v.type_),
              self.expr(&v.initial_value),
              self.expr(&v.loop_value)
            )
          })
          .collect();
        let bc = opt(break_collector.as_ref().map(|(n, t)| format!("({}, {})", self.tb.name(*n), self.ty(t))));
        format!("LWhile {} {} {}", list(lvs), self.stmts(statements), bc)
      }
      S::Cast { name, type_, assigned_expression } => {
        format!("LCast {} {} {}", self.tb.name(*name), self.ty(type_), self.expr(assigned_expression))
      }
      S::LateInitDeclaration { name, type_ } => {
        format!("LLateInitDeclaration {} {}", self.tb.name(*name), self.ty(type_))
      }
      S::LateInitAssignment { name, assigned_expression } => {
        format!("LLateInitAssignment {} {}", self.tb.name(*name), self.expr(assigned_expression))
      }
      S::StructInit { struct_variable_name, type_, expression_list } => {
        format!("LStructInit {} {} {}", self.tb.name(*struct_variable_name), self.ty(type_), self.exprs(expression_list))
      }
    }
  }

  fn function(&mut self, f: &lir::Function) -> String {
    let params = list(f.parameters.iter().map(|p| self.tb.name(*p).to_string()).collect());
    let (a, r) = self.fty(&f.type_);
    format!("mklfunc {} {} {a} {r} {} {}", self.tb.fname(&f.name), params, self.stmts(&f.body), self.expr(&f.return_value))
  }

  fn typedef(&mut self, d: &lir::TypeDefinition) -> String {
    let parent = opt(d.parent_type.map(|p| self.tb.tn(p).to_string()));
    let m = list(d.mappings.iter().map(|t| self.ty(t)).collect());
    format!("mkltd {} {} {} {}", self.tb.tn(d.name), parent, d.is_extensible, m)
  }
}

struct LParts {
  globals: Vec<(u64, String)>,
  typedefs: Vec<(u64, String)>,
  mains: Vec<String>,
  main_ids: Vec<u64>,
  funcs: Vec<(u64, String)>,
}

fn lir_parts(tb: &mut Tb, s: &lir::Sources) -> LParts {
  let globals = s.global_variables.iter().map(|g| (tb.name(g.0), tb.name(g.0).to_string())).collect();
  let typedefs = s.type_definitions.iter().map(|d| (tnum(d.name) as u64, LEnc { tb }.typedef(d))).collect();
  let mains = s.main_function_names.iter().map(|f| tb.fname(f)).collect();
  let main_ids = s.main_function_names.iter().map(|f| tb.fid(f)).collect();
  let funcs = s.functions.iter().map(|f| (tb.fid(&f.name), LEnc { tb }.function(f))).collect();
  LParts { globals, typedefs, mains, main_ids, funcs }
}

fn lir_gallina(p: &LParts) -> String {
  format!(
    "mkls {} {} {} {}",
    list(p.globals.iter().map(|x| x.1.clone()).collect()),
    list(p.typedefs.iter().map(|x| x.1.clone()).collect()),
    list(p.mains.clone()),
    list(p.funcs.iter().map(|x| x.1.clone()).collect())
  )
}

// ------------------------------------------------------------------------------------------------ driver
type Checked = HashMap<ModuleReference, samlang_ast::source::Module<std::sync::Arc<samlang_checker::type_::Type>>>;

fn front(job: &Value) -> (Heap, Result<Option<Checked>, String>) {
  let mut heap = Heap::new();
  let texts = load_sources(&mut heap, job);
  let entry = mod_ref(&mut heap, job["entry"].as_str().unwrap_or(""));
  let r = catch_unwind(AssertUnwindSafe(|| {
    let mut error_set = samlang_errors::ErrorSet::new();
    let mut parsed = HashMap::new();
    let mut ms: Vec<ModuleReference> = texts.keys().copied().collect();
    ms.sort();
    for m in &ms {
      parsed.insert(*m, samlang_parser::parse_source_module_from_text(&texts[m], *m, &mut heap, &mut error_set));
    }
    let checked = samlang_checker::type_check_sources(&parsed, &mut error_set).0;
    if error_set.has_errors() || !parsed.contains_key(&entry) {
      return None;
    }
    Some(checked)
  }))
  .map_err(panic_msg);
  (heap, r)
}

fn wants(job: &Value, stage: &str) -> bool {
  match job["stages"].as_array() {
    Some(a) => a.iter().any(|s| s.as_str() == Some(stage)),
    None => true,
  }
}

fn dedup_stage(tb: &mut Tb, heap: &mut Heap, checked: &Checked, want_spec: bool, want_dedup: bool, out: &mut Vec<Value>) {
  use samlang_compiler::verif as chooks;
  let before_src = match catch_unwind(AssertUnwindSafe(|| chooks::compile_sources_to_mir_before_dedup(heap, checked))) {
    Ok(s) => s,
    Err(p) => {
      out.push(json!({"kind": if want_dedup { "dedup" } else { "spec" }, "lowering_panic": panic_msg(p)}));
      return;
    }
  };
  let before = mir_parts(tb, &before_src);
  let subs = subs_table(tb, heap, &before_src.symbol_table);
  let g = mir_gallina(&before, &subs);
  if want_spec {
    // the function names the runtime library defines (the FunctionName constants of mir.rs)
    let builtin_fns: Vec<u64> = BUILTIN_FNS.iter().filter_map(|f| tb.fnames.get(f).copied()).collect();
    let mut fname_text = serde_json::Map::new();
    for f in &tb.fname_list {
      let text = catch_unwind(AssertUnwindSafe(|| f.encoded_for_test(heap, &before_src.symbol_table)))
        .unwrap_or_else(|_| format!("{}${}", tnum(f.type_name), f.fn_name.as_str(heap)));
      fname_text.insert(tb.fnames[f].to_string(), json!(text));
    }
    let mut spec = json!({"kind": "spec", "builtin_fns": builtin_fns, "fname_text": fname_text, "functions": before.funcs.len()});
    if !want_dedup {
      spec["before"] = json!(g);
    }
    out.push(spec);
  }
  if !want_dedup {
    return;
  }
  let after_src = match catch_unwind(AssertUnwindSafe(|| chooks::type_deduplication(before_src))) {
    Ok(s) => s,
    Err(p) => {
      out.push(json!({"kind": "dedup", "before": g, "panic": panic_msg(p)}));
      return;
    }
  };
  let after = mir_parts(tb, &after_src);
  let subs_after = subs_table(tb, heap, &after_src.symbol_table);
  // derive: (id of the type whose encoded name is the text before "$_Sub<tag>", tag) -> sub-type
  let mut by_name: HashMap<String, u32> = HashMap::new();
  for (n, id) in &tb.seen {
    if *n == 1 || *n == 3 {
      continue;
    }
    if let Ok(enc) = catch_unwind(AssertUnwindSafe(|| id.encoded_for_test(heap, &after_src.symbol_table))) {
      by_name.insert(enc, *n);
    }
  }
  let mut derive = Vec::new();
  for (n, id) in &tb.seen {
    if let Some((base, tag)) = sub_tag(heap, &after_src.symbol_table, *id)
      && let Some(p) = by_name.get(&base)
    {
      derive.push(json!([p, tag, n]));
    }
  }
  // the model is given the table as it was BEFORE the pass, extended (get_first: at the end) with the names
  // that only exist after it; their parent is already the canonical one
  let after_g = mir_gallina(&after, &subs_after);
  let parents_after: Vec<Value> = subs_after.iter().map(|(s, p, _)| json!([s, p])).collect();
  out.push(json!({"kind": "dedup", "before": g, "after": after_g, "derive": derive, "parents_after": parents_after,
         "sizes": [before.typedefs.len(), after.typedefs.len(), before.closures.len(), after.closures.len(), before.funcs.len()]}));
}

fn lir_stage(tb: &mut Tb, heap: &mut Heap, optimized: mir::Sources) -> Value {
  use samlang_compiler::verif as chooks;
  let before_src = match catch_unwind(AssertUnwindSafe(|| chooks::compile_mir_to_lir_before_elimination(heap, optimized))) {
    Ok(s) => s,
    Err(p) => return json!({"kind": "lir-elim", "where": "final", "hook": true, "lowering_panic": panic_msg(p)}),
  };
  let before = lir_parts(tb, &before_src);
  let g = lir_gallina(&before);
  let after_src = match catch_unwind(AssertUnwindSafe(|| chooks::lir_unused_name_elimination(before_src))) {
    Ok(s) => s,
    Err(p) => return json!({"kind": "lir-elim", "where": "final", "hook": true, "before": g, "panic": panic_msg(p)}),
  };
  let after = lir_parts(tb, &after_src);
  let sub_vector = is_selected(&before.globals, &after.globals)
    && is_selected(&before.typedefs, &after.typedefs)
    && is_selected(&before.funcs, &after.funcs)
    && before.mains == after.mains;
  let nm = json!({"globals": ids(&after.globals), "closures": [], "typedefs": ids(&after.typedefs),
                  "funcs": ids(&after.funcs), "mains": after.main_ids});
  let mut out = json!({"kind": "lir-elim", "where": "final", "hook": true, "before": g, "after_names": nm, "sub_vector": sub_vector,
                       "sizes": [before.funcs.len(), after.funcs.len(), before.typedefs.len(), after.typedefs.len(),
                                 before.globals.len(), after.globals.len()]});
  if !sub_vector {
    out["after"] = json!(lir_gallina(&after));
  }
  out
}

/// three hand-made programs: main() whose body mentions type T10 only at a place the MIR pass does not look at
fn synthetic(kind: &str) -> Option<(Heap, mir::Sources)> {
  let mut heap = Heap::new();
  let mut table = mir::SymbolTable::new();
  let t10 = table.create_type_name_for_test(heap.alloc_string("T10".to_string()));
  let t20 = table.create_type_name_for_test(heap.alloc_string("T20".to_string()));
  let x = heap.alloc_string("x".to_string());
  let main = mir::FunctionName::new_for_test(PStr::MAIN_FN);
  let struct10 = mir::TypeDefinition { name: t10, mappings: mir::TypeDefinitionMappings::Struct(vec![mir::INT_32_TYPE]) };
  let (type_definitions, body) = match kind {
    "decl" => (
      vec![struct10],
      vec![mir::Statement::LateInitDeclaration { name: x, type_: mir::Type::Id(t10) }],
    ),
    "fty" => (
      vec![struct10],
      vec![mir::Statement::Call {
        callee: mir::Callee::FunctionName(mir::FunctionNameExpression {
          name: mir::FunctionName::new_for_test(heap.alloc_string("ext".to_string())),
          type_: mir::Type::new_fn_unwrapped(vec![mir::Type::Id(t10)], mir::INT_32_TYPE),
        }),
        arguments: vec![mir::ZERO],
        return_type: mir::INT_32_TYPE,
        return_collector: None,
      }],
    ),
    "parent" => {
      let sub = table.derived_type_name_with_subtype_tag(t20, 0);
      (
        vec![
          mir::TypeDefinition {
            name: t20,
            mappings: mir::TypeDefinitionMappings::Enum(vec![mir::EnumTypeDefinition::Boxed(vec![
              mir::INT_32_TYPE,
              mir::Type::Id(t10),
            ])]),
          },
          struct10,
        ],
        vec![mir::Statement::StructInit { struct_variable_name: x, type_name: sub, expression_list: vec![mir::ONE, mir::ZERO] }],
      )
    }
    _ => return None,
  };
  let sources = mir::Sources {
    symbol_table: table,
    global_variables: Vec::new(),
    closure_types: Vec::new(),
    type_definitions,
    main_function_names: vec![main],
    functions: vec![mir::Function {
      name: main,
      parameters: Vec::new(),
      type_: mir::Type::new_fn_unwrapped(Vec::new(), mir::INT_32_TYPE),
      body,
      return_value: mir::ZERO,
    }],
  };
  Some((heap, sources))
}

fn run_synthetic(job: &Value, kind: &str) -> Value {
  let id = job["id"].clone();
  let Some((mut heap, mut sources)) = synthetic(kind) else {
    return json!({"id": id, "error": format!("unknown synthetic program {kind}")});
  };
  let mut tb = Tb::default();
  let mut stages = Vec::new();
  let (v, ok) = mir_elim_stage(&mut tb, &heap, &mut sources, "synthetic");
  stages.push(v);
  if ok {
    stages.push(lir_stage(&mut tb, &mut heap, sources));
  }
  json!({"id": id, "synthetic": kind, "fnames": [], "stages": stages})
}

fn run_job(job: &Value) -> Value {
  if let Some(kind) = job["synthetic"].as_str() {
    return run_synthetic(job, kind);
  }
  let id = job["id"].clone();
  let (mut heap, checked) = front(job);
  let checked = match checked {
    Ok(Some(c)) => c,
    Ok(None) => return json!({"id": id, "rejected": true}),
    Err(m) => return json!({"id": id, "front_panic": m}),
  };
  let mut tb = Tb::default();
  let mut stages: Vec<Value> = Vec::new();
  if wants(job, "dedup") || wants(job, "spec") {
    dedup_stage(&mut tb, &mut heap, &checked, wants(job, "spec"), wants(job, "dedup"), &mut stages);
  }
  if wants(job, "mir-raw") {
    match catch_unwind(AssertUnwindSafe(|| samlang_compiler::compile_sources_to_mir(&mut heap, &checked))) {
      Ok(mut s) => stages.push(mir_elim_stage(&mut tb, &heap, &mut s, "raw").0),
      Err(p) => return json!({"id": id, "lowering_panic": panic_msg(p)}),
    }
  }
  if wants(job, "mir-pipeline") {
    match catch_unwind(AssertUnwindSafe(|| samlang_compiler::compile_sources_to_mir(&mut heap, &checked))) {
      Err(p) => return json!({"id": id, "lowering_panic": panic_msg(p)}),
      Ok(mut sources) => {
        for round in 0..4 {
          let counter = heap.create_temp_counter();
          let mut failed = None;
          for f in sources.functions.iter_mut() {
            if let Err(p) = catch_unwind(AssertUnwindSafe(|| ohooks::run_function_rounds(f, &counter, true, true, true, true))) {
              failed = Some(panic_msg(p));
              break;
            }
          }
          heap.sync_temp_counter(&counter);
          if let Some(m) = failed {
            stages.push(json!({"kind": "mir-elim", "where": format!("round{round}"), "rounds_panic": m}));
            break;
          }
          let input = std::mem::take(&mut sources.functions);
          match catch_unwind(AssertUnwindSafe(|| ohooks::run_inlining(input, &mut heap))) {
            Ok(fs) => sources.functions = fs,
            Err(p) => {
              stages.push(json!({"kind": "mir-elim", "where": format!("round{round}"), "rounds_panic": panic_msg(p)}));
              break;
            }
          }
          let (v, ok) = mir_elim_stage(&mut tb, &heap, &mut sources, &format!("round{round}"));
          stages.push(v);
          if !ok {
            break;
          }
        }
      }
    }
  }
  if wants(job, "lir") {
    // the real pipeline of compile_sources up to the LIR
    let optimized = catch_unwind(AssertUnwindSafe(|| {
      let mir = samlang_compiler::compile_sources_to_mir(&mut heap, &checked);
      samlang_optimization::optimize_sources(&mut heap, mir, &samlang_optimization::ALL_ENABLED_CONFIGURATION)
    }));
    match optimized {
      Ok(o) => stages.push(lir_stage(&mut tb, &mut heap, o)),
      Err(p) => stages.push(json!({"kind": "lir-elim", "where": "final", "optimizer_panic": panic_msg(p)})),
    }
  }
  let mut fnames: Vec<String> = Vec::new();
  {
    // names of the functions, for messages (the symbol table of the last stage is gone: raw text of the parts)
    for f in &tb.fname_list {
      let mut s = String::new();
      let _ = write!(s, "{}${}", tnum(f.type_name), f.fn_name.as_str(&heap));
      fnames.push(s);
    }
  }
  json!({"id": id, "fnames": fnames, "stages": stages})
}

pub fn main(_args: &[String]) {
  let stdin = std::io::stdin();
  for line in stdin.lock().lines() {
    let line = line.unwrap();
    if line.trim().is_empty() {
      continue;
    }
    let job: Value = match serde_json::from_str(&line) {
      Ok(j) => j,
      Err(e) => {
        println!("{}", json!({"error": format!("bad job: {e}")}));
        continue;
      }
    };
    let out = match catch_unwind(AssertUnwindSafe(|| run_job(&job))) {
      Ok(v) => v,
      Err(p) => json!({"id": job["id"], "harness_panic": panic_msg(p)}),
    };
    println!("{out}");
  }
}
