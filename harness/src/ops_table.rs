//! T-ops (C04, C08): the operator tables as the real printers produce them.
//! `vh ops-table` prints one JSON object:
//!   {"ts": {"MUL": "<TS statement the LIR printer emits for r = a MUL b>", ...},
//!    "wat": {"MUL": "<WAT instruction the wasm printer emits>", ...},
//!    "i31": {"ts": "<TS text of Int31Literal(5)>", "wat": "..."}, "not": {"ts":..., "wat":...}}
use crate::opt_kernels::{op_name, op_of};
use samlang_ast::{hir, lir, mir};
use samlang_heap::{Heap, PStr};
use serde_json::{Map, Value, json};

const OPS: &[&str] = &[
  "MUL", "DIV", "MOD", "PLUS", "MINUS", "LAND", "LOR", "SHL", "SHR", "XOR", "LT", "LE", "GT", "GE", "EQ", "NE",
];

fn sources(heap: &mut Heap, body: Vec<lir::Statement>, ret: lir::Expression) -> lir::Sources {
  let mut symbol_table = mir::SymbolTable::new();
  let main = mir::FunctionName {
    type_name: symbol_table.create_main_type_name(samlang_heap::ModuleReference::ROOT),
    fn_name: PStr::MAIN_FN,
  };
  let _ = heap;
  lir::Sources {
    symbol_table,
    global_variables: Vec::new(),
    type_definitions: Vec::new(),
    main_function_names: vec![main],
    functions: vec![lir::Function {
      name: main,
      parameters: vec![PStr::LOWER_A, PStr::LOWER_B],
      type_: lir::Type::new_fn_unwrapped(vec![lir::INT_32_TYPE, lir::INT_32_TYPE], lir::INT_32_TYPE),
      body,
      return_value: ret,
    }],
  }
}

fn line_with<'a>(text: &'a str, needle: &str) -> String {
  text.lines().find(|l| l.contains(needle)).map(|l| l.trim().to_string()).unwrap_or_default()
}

pub fn main(_args: &[String]) {
  let mut ts = Map::new();
  let mut wat = Map::new();
  let a = lir::Expression::Variable(PStr::LOWER_A, lir::INT_32_TYPE);
  let b = lir::Expression::Variable(PStr::LOWER_B, lir::INT_32_TYPE);
  for op in OPS {
    let operator: hir::BinaryOperator = op_of(op);
    let mk = |heap: &mut Heap| {
      sources(
        heap,
        vec![lir::Statement::Binary { name: PStr::LOWER_R, operator, e1: a.clone(), e2: b.clone() }],
        lir::Expression::Variable(PStr::LOWER_R, lir::INT_32_TYPE),
      )
    };
    let mut heap = Heap::new();
    let s = mk(&mut heap);
    ts.insert(op_name(operator).to_string(), json!(line_with(&s.pretty_print(&heap), "let r = ")));
    let mut heap = Heap::new();
    let s = mk(&mut heap);
    let (wat_text, _) = samlang_compiler::compile_lir_to_wasm(&mut heap, s);
    wat.insert(op_name(operator).to_string(), json!(line_with(&wat_text, "(local.set $r ")));
  }
  // Not and Int31 literal
  let mk = |heap: &mut Heap| {
    sources(
      heap,
      vec![lir::Statement::Not { name: PStr::LOWER_R, operand: a.clone() }],
      lir::Expression::Variable(PStr::LOWER_R, lir::INT_32_TYPE),
    )
  };
  let mut heap = Heap::new();
  let s = mk(&mut heap);
  let not_ts = line_with(&s.pretty_print(&heap), "let r = ");
  let mut heap = Heap::new();
  let s = mk(&mut heap);
  let not_wat = line_with(&samlang_compiler::compile_lir_to_wasm(&mut heap, s).0, "(local.set $r ");
  println!("{}", json!({"ts": Value::Object(ts), "wat": Value::Object(wat), "not": {"ts": not_ts, "wat": not_wat}}));
}
