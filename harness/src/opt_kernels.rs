//! C02 correspondence: the optimizer's private arithmetic kernels (samlang_verif hooks) on given inputs.
//! stdin: JSON array of cases ["E", op, a, b] | ["M", outer, inner, c1, c2] | ["T", guard(0..3), i0, inc, g]
//!        | ["F", op, rel] (flexible_order_binary with operands ordered by rel: 0 e1<e2, 1 e1=e2, 2 e1>e2)
//! stdout: JSON array of results: number | "none" | "panic" | [op, number] | [op, swapped]
use samlang_ast::hir::BinaryOperator;
use samlang_ast::mir::{Expression, Statement};
use serde_json::{Value, json};
use std::io::Read;
use std::panic::{AssertUnwindSafe, catch_unwind};

pub fn op_of(name: &str) -> BinaryOperator {
  match name {
    "MUL" => BinaryOperator::MUL,
    "DIV" => BinaryOperator::DIV,
    "MOD" => BinaryOperator::MOD,
    "PLUS" => BinaryOperator::PLUS,
    "MINUS" => BinaryOperator::MINUS,
    "LAND" => BinaryOperator::LAND,
    "LOR" => BinaryOperator::LOR,
    "SHL" => BinaryOperator::SHL,
    "SHR" => BinaryOperator::SHR,
    "XOR" => BinaryOperator::XOR,
    "LT" => BinaryOperator::LT,
    "LE" => BinaryOperator::LE,
    "GT" => BinaryOperator::GT,
    "GE" => BinaryOperator::GE,
    "EQ" => BinaryOperator::EQ,
    "NE" => BinaryOperator::NE,
    _ => panic!("bad op {name}"),
  }
}

pub fn op_name(op: BinaryOperator) -> &'static str {
  match op {
    BinaryOperator::MUL => "MUL",
    BinaryOperator::DIV => "DIV",
    BinaryOperator::MOD => "MOD",
    BinaryOperator::PLUS => "PLUS",
    BinaryOperator::MINUS => "MINUS",
    BinaryOperator::LAND => "LAND",
    BinaryOperator::LOR => "LOR",
    BinaryOperator::SHL => "SHL",
    BinaryOperator::SHR => "SHR",
    BinaryOperator::XOR => "XOR",
    BinaryOperator::LT => "LT",
    BinaryOperator::LE => "LE",
    BinaryOperator::GT => "GT",
    BinaryOperator::GE => "GE",
    BinaryOperator::EQ => "EQ",
    BinaryOperator::NE => "NE",
  }
}

fn i(v: &Value) -> i32 {
  v.as_i64().unwrap() as i32
}

pub fn main(_args: &[String]) {
  let mut text = String::new();
  std::io::stdin().read_to_string(&mut text).unwrap();
  let cases: Vec<Value> = serde_json::from_str(&text).unwrap();
  let mut out = Vec::with_capacity(cases.len());
  for c in &cases {
    let kind = c[0].as_str().unwrap();
    let r = catch_unwind(AssertUnwindSafe(|| match kind {
      "E" => match samlang_optimization::verif::evaluate_bin_op(op_of(c[1].as_str().unwrap()), i(&c[2]), i(&c[3])) {
        Some(v) => json!(v),
        None => json!("none"),
      },
      "M" => match samlang_optimization::verif::merge_binary_expression(
        op_of(c[1].as_str().unwrap()),
        op_of(c[2].as_str().unwrap()),
        i(&c[3]),
        i(&c[4]),
      ) {
        Some((op, v)) => json!([op_name(op), v]),
        None => json!("none"),
      },
      "T" => match samlang_optimization::verif::number_of_iterations_to_break_guard(
        i(&c[2]),
        i(&c[3]),
        c[1].as_u64().unwrap() as u8,
        i(&c[4]),
      ) {
        Some(v) => json!(v),
        None => json!("none"),
      },
      "F" => {
        // operands whose implementation order (Expression::cmp) is known: literals compare by value
        let rel = c[2].as_u64().unwrap();
        let (e1, e2) = match rel {
          0 => (Expression::i32(1), Expression::i32(2)),
          1 => (Expression::i32(2), Expression::i32(2)),
          _ => (Expression::i32(3), Expression::i32(2)),
        };
        let (op, n1, _n2) = Statement::flexible_order_binary(op_of(c[1].as_str().unwrap()), e1, e2);
        json!([op_name(op), n1 != e1])
      }
      _ => json!("bad-case"),
    }));
    out.push(match r {
      Ok(v) => v,
      Err(_) => json!("panic"),
    });
  }
  println!("{}", Value::Array(out));
}
