//! C13 — information for source-level metamorphic rewrites, taken from the REAL parser, SSA analysis and
//! type checker, plus the signature-map view used by the C13 model of `build_module_signature`.
//!
//! `vh rewrite-run`: one JSON job per line on stdin
//!   {"id": any, "sources": {"Mod.Name": text, ...}, "module": "Mod.Name", "with_std": bool (default true),
//!    "want": "sites" (default) | "sig"}
//! and one JSON result per line.
//!
//! want = "sites": everything Python needs to edit the text of `module` at exact (line, byte column) ranges:
//!   imports, toplevels (+ members, + the classes every toplevel mentions), every expression of the CHECKED
//!   AST with its location / kind / parent / role / inferred type, every `let` (pattern end, annotated?,
//!   type of the right-hand side), every lambda parameter, every member access that has inferred type
//!   arguments and no explicit ones, and every local binder with the occurrences that resolve to it
//!   (`SsaAnalysisResult::def_to_use_map`).
//! want = "sig": `build_module_signature` rendered location-free: the whole module, every toplevel alone,
//!   every member alone (see checks/c13.py `layer_b` and theories/C13/Model.v).
use crate::front::{error_json, load_sources, mod_ref, panic_msg};
use samlang_ast::{
  Location,
  source::{ClassMemberDeclaration, InterfaceMembersCommon, Module, Toplevel, annotation, expr, pattern},
};
use samlang_checker::type_::{ISourceType, InterfaceSignature, MemberSignature, Type, TypeParameterSignature};
use samlang_errors::ErrorSet;
use samlang_heap::{Heap, ModuleReference, PStr};
use serde_json::{Value, json};
use std::collections::{BTreeMap, BTreeSet, HashMap};
use std::io::BufRead;
use std::panic::{AssertUnwindSafe, catch_unwind};
use std::sync::Arc;

type Ty = Arc<Type>;
type L4 = [u32; 4];

fn l4(l: &Location) -> L4 {
  [l.start.0, l.start.1, l.end.0, l.end.1]
}

struct TyInfo {
  any: bool,
  statics: bool,
  noms: BTreeSet<(String, String)>,
  gens: BTreeSet<String>,
}

fn ty_info(heap: &Heap, t: &Type, out: &mut TyInfo) {
  match t {
    Type::Any(_, _) => out.any = true,
    Type::Primitive(_, _) => {}
    Type::Nominal(n) => {
      if n.is_class_statics {
        out.statics = true;
      }
      out.noms.insert((n.module_reference.pretty_print(heap), n.id.as_str(heap).to_string()));
      for a in &n.type_arguments {
        ty_info(heap, a, out);
      }
    }
    Type::Generic(_, s) => {
      out.gens.insert(s.as_str(heap).to_string());
    }
    Type::Fn(f) => {
      for a in &f.argument_types {
        ty_info(heap, a, out);
      }
      ty_info(heap, &f.return_type, out);
    }
  }
}

fn ty_json(heap: &Heap, t: &Type) -> Value {
  let mut i = TyInfo { any: false, statics: false, noms: BTreeSet::new(), gens: BTreeSet::new() };
  ty_info(heap, t, &mut i);
  json!({"s": t.pretty_print(heap), "any": i.any, "statics": i.statics,
         "fn": matches!(t, Type::Fn(_)),
         "noms": i.noms.iter().map(|(m, n)| json!([m, n])).collect::<Vec<_>>(),
         "gens": i.gens.iter().collect::<Vec<_>>()})
}

fn kind_of(e: &expr::E<Ty>) -> &'static str {
  match e {
    expr::E::Literal(_, _) => "lit",
    expr::E::LocalId(_, _) => "local",
    expr::E::ClassId(_, _, _) => "class",
    expr::E::Tuple(_, _) => "tuple",
    expr::E::FieldAccess(_) => "field",
    expr::E::MethodAccess(_) => "method",
    expr::E::Unary(_) => "unary",
    expr::E::Call(_) => "call",
    expr::E::Binary(_) => "binary",
    expr::E::IfElse(_) => "if",
    expr::E::Match(_) => "match",
    expr::E::Lambda(_) => "lambda",
    expr::E::Block(_) => "block",
  }
}

struct Binder {
  name: String,
  loc: L4,
  kind: &'static str,
  /// the binders of this pattern must not be renamed (an or-pattern nested in a later alternative is not
  /// visited by SSA analysis: known finding of C15)
  skip: bool,
}

struct Walk<'a> {
  heap: &'a Heap,
  exprs: Vec<Value>,
  lets: Vec<Value>,
  lparams: Vec<Value>,
  targs: Vec<Value>,
  binders: Vec<Binder>,
  shorthand: Vec<L4>,
  member: usize,
  toplevel: usize,
}

fn pat_has_nested_or_later(p: &pattern::MatchingPattern<Ty>, in_later: bool) -> bool {
  match p {
    pattern::MatchingPattern::Tuple(t) => t.elements.iter().any(|e| pat_has_nested_or_later(&e.pattern, in_later)),
    pattern::MatchingPattern::Object { elements, .. } => {
      elements.iter().any(|e| pat_has_nested_or_later(&e.pattern, in_later))
    }
    pattern::MatchingPattern::Variant(v) => v
      .data_variables
      .iter()
      .flat_map(|t| &t.elements)
      .any(|e| pat_has_nested_or_later(&e.pattern, in_later)),
    pattern::MatchingPattern::Id(_, _) | pattern::MatchingPattern::Wildcard { .. } => false,
    pattern::MatchingPattern::Or { patterns, .. } => {
      in_later || patterns.iter().enumerate().any(|(i, q)| pat_has_nested_or_later(q, i > 0))
    }
  }
}

impl<'a> Walk<'a> {
  fn pat(&mut self, p: &pattern::MatchingPattern<Ty>, skip: bool, first_alt: bool) {
    match p {
      pattern::MatchingPattern::Tuple(t) => {
        for e in &t.elements {
          self.pat(&e.pattern, skip, first_alt);
        }
      }
      pattern::MatchingPattern::Object { elements, .. } => {
        for e in elements {
          if e.shorthand {
            self.shorthand.push(l4(e.pattern.loc()));
          }
          self.pat(&e.pattern, skip, first_alt);
        }
      }
      pattern::MatchingPattern::Variant(v) => {
        for e in v.data_variables.iter().flat_map(|t| &t.elements) {
          self.pat(&e.pattern, skip, first_alt);
        }
      }
      pattern::MatchingPattern::Id(id, _) => {
        if first_alt {
          self.binders.push(Binder { name: id.name.as_str(self.heap).to_string(), loc: l4(&id.loc), kind: "pat", skip });
        }
      }
      pattern::MatchingPattern::Wildcard { .. } => {}
      pattern::MatchingPattern::Or { patterns, .. } => {
        for (i, q) in patterns.iter().enumerate() {
          self.pat(q, skip, first_alt && i == 0);
        }
      }
    }
  }

  fn top_pat(&mut self, p: &pattern::MatchingPattern<Ty>) {
    let skip = pat_has_nested_or_later(p, false);
    self.pat(p, skip, true);
  }

  fn block(&mut self, b: &expr::Block<Ty>, parent: i64, role: &str) -> usize {
    let me = self.push_expr("block", &b.common, parent, role);
    for s in &b.statements {
      match s {
        expr::Statement::Declaration(d) => {
          let rhs = self.expr(&d.assigned_expression, me as i64, "let-rhs");
          let pk = match &d.pattern {
            pattern::MatchingPattern::Id(_, _) => "id",
            pattern::MatchingPattern::Wildcard { .. } => "wildcard",
            pattern::MatchingPattern::Tuple(_) => "tuple",
            pattern::MatchingPattern::Object { .. } => "object",
            pattern::MatchingPattern::Variant(_) => "variant",
            pattern::MatchingPattern::Or { .. } => "or",
          };
          self.lets.push(json!({"loc": l4(&d.loc), "pat_loc": l4(d.pattern.loc()), "pat_kind": pk,
              "annotated": d.annotation.is_some(), "rhs": rhs,
              "ty": ty_json(self.heap, d.assigned_expression.type_()),
              "member": self.member, "toplevel": self.toplevel}));
          self.top_pat(&d.pattern);
        }
        expr::Statement::Expression(e) => {
          self.expr(e, me as i64, "stmt");
        }
      }
    }
    if let Some(e) = &b.expression {
      self.expr(e, me as i64, "final");
    }
    me
  }

  fn if_else(&mut self, e: &expr::IfElse<Ty>, parent: i64, role: &str) -> usize {
    let me = self.push_expr("if", &e.common, parent, role);
    match e.condition.as_ref() {
      expr::IfElseCondition::Expression(g) => {
        self.expr(g, me as i64, "cond");
      }
      expr::IfElseCondition::Guard(p, g) => {
        self.expr(g, me as i64, "guard");
        self.top_pat(p);
      }
    }
    // the two branches are syntactically blocks (`if c { .. } else { .. }`): not sites for wrapping
    self.block(&e.e1, me as i64, "branch");
    match e.e2.as_ref() {
      expr::IfElseOrBlock::IfElse(x) => {
        self.if_else(x, me as i64, "else-if");
      }
      expr::IfElseOrBlock::Block(b) => {
        self.block(b, me as i64, "branch");
      }
    }
    me
  }

  fn push_expr(&mut self, kind: &str, c: &expr::ExpressionCommon<Ty>, parent: i64, role: &str) -> usize {
    let i = self.exprs.len();
    self.exprs.push(json!({"i": i, "k": kind, "loc": l4(&c.loc), "ty": ty_json(self.heap, &c.type_),
                           "parent": parent, "role": role, "member": self.member, "toplevel": self.toplevel}));
    i
  }

  fn targs(
    &mut self,
    kind: &str,
    name: &samlang_ast::source::Id,
    explicit: &Option<annotation::TypeArguments>,
    inferred: &[Ty],
    me: usize,
    called: bool,
  ) {
    if inferred.is_empty() && explicit.is_none() {
      return;
    }
    self.targs.push(json!({"kind": kind, "name": name.name.as_str(self.heap), "name_loc": l4(&name.loc),
        "explicit": explicit.is_some(), "expr": me, "called": called,
        "inferred": inferred.iter().map(|t| ty_json(self.heap, t)).collect::<Vec<_>>(),
        "member": self.member, "toplevel": self.toplevel}));
  }

  fn expr(&mut self, e: &expr::E<Ty>, parent: i64, role: &str) -> usize {
    match e {
      expr::E::Block(b) => return self.block(b, parent, role),
      expr::E::IfElse(x) => return self.if_else(x, parent, role),
      _ => {}
    }
    let me = self.push_expr(kind_of(e), e.common(), parent, role);
    let p = me as i64;
    match e {
      expr::E::Literal(_, _) | expr::E::ClassId(_, _, _) | expr::E::LocalId(_, _) => {}
      expr::E::Tuple(_, es) => {
        for x in &es.expressions {
          self.expr(x, p, "tuple-elem");
        }
      }
      expr::E::FieldAccess(x) => {
        self.expr(&x.object, p, "object");
        self.targs("field", &x.field_name, &x.explicit_type_arguments, &x.inferred_type_arguments, me, role == "callee");
      }
      expr::E::MethodAccess(x) => {
        self.expr(&x.object, p, "object");
        self.targs("method", &x.method_name, &x.explicit_type_arguments, &x.inferred_type_arguments, me, role == "callee");
      }
      expr::E::Unary(x) => {
        self.expr(&x.argument, p, "unary-arg");
      }
      expr::E::Call(x) => {
        self.expr(&x.callee, p, "callee");
        for a in &x.arguments.expressions {
          self.expr(a, p, "arg");
        }
      }
      expr::E::Binary(x) => {
        self.expr(&x.e1, p, "lhs");
        self.expr(&x.e2, p, "rhs");
      }
      expr::E::Match(x) => {
        self.expr(&x.matched, p, "matched");
        for c in &x.cases {
          self.top_pat(&c.pattern);
          self.expr(&c.body, p, "arm");
        }
      }
      expr::E::Lambda(x) => {
        for (k, q) in x.parameters.parameters.iter().enumerate() {
          self.binders.push(Binder { name: q.name.name.as_str(self.heap).to_string(), loc: l4(&q.name.loc), kind: "lparam", skip: false });
          self.lparams.push(json!({"loc": l4(&q.name.loc), "annotated": q.annotation.is_some(), "index": k,
              "lambda": me, "ty": ty_json(self.heap, &q.type_), "member": self.member, "toplevel": self.toplevel}));
        }
        self.expr(&x.body, p, "lambda-body");
      }
      expr::E::Block(_) | expr::E::IfElse(_) => unreachable!(),
    }
    me
  }
}

fn annot_uses(heap: &Heap, a: &annotation::T, out: &mut BTreeSet<(String, String)>) {
  match a {
    annotation::T::Primitive(_, _, _) | annotation::T::Generic(_, _) => {}
    annotation::T::Id(id) => annot_id_uses(heap, id, out),
    annotation::T::Fn(f) => {
      for p in &f.parameters.annotations {
        annot_uses(heap, p, out);
      }
      annot_uses(heap, &f.return_type, out);
    }
  }
}

fn annot_id_uses(heap: &Heap, id: &annotation::Id, out: &mut BTreeSet<(String, String)>) {
  out.insert((id.module_reference.pretty_print(heap), id.id.name.as_str(heap).to_string()));
  for t in id.type_arguments.iter().flat_map(|t| &t.arguments) {
    annot_uses(heap, t, out);
  }
}

fn tparams_uses(heap: &Heap, tp: Option<&annotation::TypeParameters>, out: &mut BTreeSet<(String, String)>) {
  for p in tp.iter().flat_map(|t| &t.parameters) {
    if let Some(b) = &p.bound {
      annot_id_uses(heap, b, out);
    }
  }
}

fn decl_uses(heap: &Heap, d: &ClassMemberDeclaration, out: &mut BTreeSet<(String, String)>) {
  tparams_uses(heap, d.type_parameters.as_ref(), out);
  for p in d.parameters.parameters.iter() {
    annot_uses(heap, &p.annotation, out);
  }
  annot_uses(heap, &d.return_type, out);
}

fn expr_uses(heap: &Heap, e: &expr::E<Ty>, out: &mut BTreeSet<(String, String)>) {
  let targs = |t: &Option<annotation::TypeArguments>, out: &mut BTreeSet<(String, String)>| {
    for a in t.iter().flat_map(|t| &t.arguments) {
      annot_uses(heap, a, out);
    }
  };
  match e {
    expr::E::Literal(_, _) | expr::E::LocalId(_, _) => {}
    expr::E::ClassId(_, m, id) => {
      out.insert((m.pretty_print(heap), id.name.as_str(heap).to_string()));
    }
    expr::E::Tuple(_, es) => es.expressions.iter().for_each(|x| expr_uses(heap, x, out)),
    expr::E::FieldAccess(x) => {
      targs(&x.explicit_type_arguments, out);
      expr_uses(heap, &x.object, out)
    }
    expr::E::MethodAccess(x) => {
      targs(&x.explicit_type_arguments, out);
      expr_uses(heap, &x.object, out)
    }
    expr::E::Unary(x) => expr_uses(heap, &x.argument, out),
    expr::E::Call(x) => {
      expr_uses(heap, &x.callee, out);
      x.arguments.expressions.iter().for_each(|a| expr_uses(heap, a, out));
    }
    expr::E::Binary(x) => {
      expr_uses(heap, &x.e1, out);
      expr_uses(heap, &x.e2, out);
    }
    expr::E::IfElse(x) => if_uses(heap, x, out),
    expr::E::Match(x) => {
      expr_uses(heap, &x.matched, out);
      x.cases.iter().for_each(|c| expr_uses(heap, &c.body, out));
    }
    expr::E::Lambda(x) => {
      for p in &x.parameters.parameters {
        if let Some(a) = &p.annotation {
          annot_uses(heap, a, out);
        }
      }
      expr_uses(heap, &x.body, out);
    }
    expr::E::Block(b) => block_uses(heap, b, out),
  }
}

fn block_uses(heap: &Heap, b: &expr::Block<Ty>, out: &mut BTreeSet<(String, String)>) {
  for s in &b.statements {
    match s {
      expr::Statement::Declaration(d) => {
        if let Some(a) = &d.annotation {
          annot_uses(heap, a, out);
        }
        expr_uses(heap, &d.assigned_expression, out);
      }
      expr::Statement::Expression(e) => expr_uses(heap, e, out),
    }
  }
  if let Some(e) = &b.expression {
    expr_uses(heap, e, out);
  }
}

fn if_uses(heap: &Heap, x: &expr::IfElse<Ty>, out: &mut BTreeSet<(String, String)>) {
  match x.condition.as_ref() {
    expr::IfElseCondition::Expression(g) | expr::IfElseCondition::Guard(_, g) => expr_uses(heap, g, out),
  }
  block_uses(heap, &x.e1, out);
  match x.e2.as_ref() {
    expr::IfElseOrBlock::IfElse(y) => if_uses(heap, y, out),
    expr::IfElseOrBlock::Block(b) => block_uses(heap, b, out),
  }
}

fn member_json(heap: &Heap, d: &ClassMemberDeclaration, body: Option<L4>) -> Value {
  json!({"name": d.name.name.as_str(heap), "loc": l4(&d.loc), "name_loc": l4(&d.name.loc),
         "is_method": d.is_method, "is_public": d.is_public, "body_loc": body,
         "tparams": d.type_parameters.iter().flat_map(|t| &t.parameters).map(|p| p.name.name.as_str(heap)).collect::<Vec<_>>()})
}

fn sites(heap: &Heap, mref: ModuleReference, parsed: &Module<()>, checked: &Module<Ty>) -> Value {
  let mut w = Walk {
    heap,
    exprs: vec![],
    lets: vec![],
    lparams: vec![],
    targs: vec![],
    binders: vec![],
    shorthand: vec![],
    member: 0,
    toplevel: 0,
  };
  let mut tops = vec![];
  let mut member_counter = 0usize;
  for (ti, t) in checked.toplevels.iter().enumerate() {
    w.toplevel = ti;
    let mut uses = BTreeSet::new();
    tparams_uses(heap, t.type_parameters(), &mut uses);
    for n in t.extends_or_implements_nodes().iter().flat_map(|n| &n.nodes) {
      annot_id_uses(heap, n, &mut uses);
    }
    let mut members = vec![];
    let (kind, typedef, members_loc) = match t {
      Toplevel::Interface(i) => {
        for m in &i.members.members {
          decl_uses(heap, m, &mut uses);
          for p in m.parameters.parameters.iter() {
            w.binders.push(Binder { name: p.name.name.as_str(heap).to_string(), loc: l4(&p.name.loc), kind: "iparam", skip: false });
          }
          members.push(member_json(heap, m, None));
        }
        ("interface", "none", l4(&i.members.loc))
      }
      Toplevel::Class(c) => {
        let td = match &c.type_definition {
          None => "none",
          Some(samlang_ast::source::TypeDefinition::Struct { fields, .. }) => {
            fields.iter().for_each(|f| annot_uses(heap, &f.annotation, &mut uses));
            "struct"
          }
          Some(samlang_ast::source::TypeDefinition::Enum { variants, .. }) => {
            for v in variants {
              for a in v.associated_data_types.iter().flat_map(|l| &l.annotations) {
                annot_uses(heap, a, &mut uses);
              }
            }
            "enum"
          }
        };
        for m in &c.members.members {
          member_counter += 1;
          w.member = member_counter;
          decl_uses(heap, &m.decl, &mut uses);
          expr_uses(heap, &m.body, &mut uses);
          for p in m.decl.parameters.parameters.iter() {
            w.binders.push(Binder { name: p.name.name.as_str(heap).to_string(), loc: l4(&p.name.loc), kind: "param", skip: false });
          }
          w.expr(&m.body, -1, "member-body");
          let mut mj = member_json(heap, &m.decl, Some(l4(&m.body.loc())));
          mj["index"] = json!(member_counter);
          members.push(mj);
        }
        ("class", td, l4(&c.members.loc))
      }
    };
    tops.push(json!({"kind": kind, "name": t.name().name.as_str(heap), "private": t.is_private(), "loc": l4(&t.loc()),
        "name_loc": l4(&t.name().loc), "typedef": typedef, "members_loc": members_loc, "members": members,
        "tparams": t.type_parameters().iter().flat_map(|t| &t.parameters).map(|p| p.name.name.as_str(heap)).collect::<Vec<_>>(),
        "uses": uses.iter().map(|(m, n)| json!([m, n])).collect::<Vec<_>>()}));
  }
  // the resolution graph of the REAL analysis
  let mut es = ErrorSet::new();
  let ssa = samlang_checker::perform_ssa_analysis_on_module(mref, parsed, &mut es);
  let d2u: BTreeMap<L4, Vec<L4>> = ssa
    .def_to_use_map
    .iter()
    .map(|(d, us)| {
      let mut v: Vec<L4> = us.iter().map(l4).collect();
      v.sort();
      v.dedup();
      (l4(d), v)
    })
    .collect();
  let binders: Vec<Value> = w
    .binders
    .iter()
    .map(|b| {
      json!({"name": b.name, "loc": b.loc, "kind": b.kind, "skip": b.skip,
             "occ": d2u.get(&b.loc).cloned(), "invalid": ssa.invalid_defines.iter().any(|l| l4(l) == b.loc)})
    })
    .collect();
  let imports: Vec<Value> = checked
    .imports
    .iter()
    .map(|i| {
      json!({"loc": l4(&i.loc), "module": i.imported_module.pretty_print(heap),
             "names": i.imported_members.iter().map(|n| n.name.as_str(heap)).collect::<Vec<_>>()})
    })
    .collect();
  json!({"imports": imports, "toplevels": tops, "exprs": w.exprs, "lets": w.lets, "lparams": w.lparams,
         "targs": w.targs, "binders": binders, "shorthand": w.shorthand})
}

// ------------------------------------------------------------------------------------------ signatures

fn member_sig_str(heap: &Heap, name: &PStr, m: &MemberSignature) -> String {
  m.pretty_print(name.as_str(heap), heap)
}

fn sorted_members(heap: &Heap, m: &HashMap<PStr, MemberSignature>) -> Vec<(String, String)> {
  let mut v: Vec<(String, String)> =
    m.iter().map(|(k, s)| (k.as_str(heap).to_string(), member_sig_str(heap, k, s))).collect();
  v.sort();
  v
}

/// everything of an InterfaceSignature except the two member maps
fn iface_rest(heap: &Heap, i: &InterfaceSignature) -> String {
  format!(
    "{}{} {} : [{}]",
    if i.private { "private " } else { "" },
    match &i.type_definition {
      Some(d) => format!("class({})", d.to_string(heap)),
      None => "interface".to_string(),
    },
    TypeParameterSignature::pretty_print_list(&i.type_parameters, heap),
    i.super_types.iter().map(|t| t.pretty_print(heap)).collect::<Vec<_>>().join(", ")
  )
}

fn iface_json(heap: &Heap, i: &InterfaceSignature) -> Value {
  json!({"rest": iface_rest(heap, i), "functions": sorted_members(heap, &i.functions), "methods": sorted_members(heap, &i.methods)})
}

fn with_members(t: &Toplevel<()>, keep: Option<usize>, keep_typedef: bool) -> Toplevel<()> {
  match t {
    Toplevel::Interface(i) => {
      let mut j = i.clone();
      j.members = InterfaceMembersCommon {
        loc: i.members.loc,
        members: keep.map(|k| vec![i.members.members[k].clone()]).unwrap_or_default(),
        ending_associated_comments: i.members.ending_associated_comments,
      };
      Toplevel::Interface(j)
    }
    Toplevel::Class(c) => {
      let mut j = c.clone();
      j.members = InterfaceMembersCommon {
        loc: c.members.loc,
        members: keep.map(|k| vec![c.members.members[k].clone()]).unwrap_or_default(),
        ending_associated_comments: c.members.ending_associated_comments,
      };
      if !keep_typedef {
        j.type_definition = None;
      }
      Toplevel::Class(j)
    }
  }
}

fn sig(heap: &Heap, mref: ModuleReference, parsed: &Module<()>) -> Value {
  let whole = samlang_checker::build_module_signature(mref, parsed);
  let mut whole_v: Vec<(String, Value)> =
    whole.interfaces.iter().map(|(k, v)| (k.as_str(heap).to_string(), iface_json(heap, v))).collect();
  whole_v.sort_by(|a, b| a.0.cmp(&b.0));
  let single = |t: Toplevel<()>| -> Module<()> {
    Module {
      comment_store: parsed.comment_store.clone(),
      imports: parsed.imports.clone(),
      toplevels: vec![t],
      trailing_comments: parsed.trailing_comments,
    }
  };
  let mut decls = vec![];
  for t in &parsed.toplevels {
    let name = t.name().name;
    // the toplevel alone
    let alone = samlang_checker::build_module_signature(mref, &single(t.clone()));
    let a = alone.interfaces.get(&name).map(|i| iface_json(heap, i));
    // the constructor entries: the class without members
    let bare = samlang_checker::build_module_signature(mref, &single(with_members(t, None, true)));
    let ctors = bare.interfaces.get(&name).map(|i| sorted_members(heap, &i.functions)).unwrap_or_default();
    // every member alone (no type definition: no constructor can hide it)
    let n = t.members_iter().count();
    let mut members = vec![];
    for (k, m) in t.members_iter().enumerate() {
      let one = samlang_checker::build_module_signature(mref, &single(with_members(t, Some(k), false)));
      let i = one.interfaces.get(&name);
      let s = i.and_then(|i| if m.is_method { i.methods.get(&m.name.name) } else { i.functions.get(&m.name.name) });
      members.push(json!({"name": m.name.name.as_str(heap), "is_method": m.is_method,
                          "sig": s.map(|s| member_sig_str(heap, &m.name.name, s))}));
    }
    debug_assert!(members.len() == n);
    decls.push(json!({"name": name.as_str(heap), "is_class": t.is_class(), "alone": a, "ctors": ctors, "members": members}));
  }
  json!({"whole": whole_v, "decls": decls})
}

pub fn run_job(job: &Value) -> Value {
  let modname = job["module"].as_str().unwrap().to_string();
  let mut heap = Heap::new();
  let sources = load_sources(&mut heap, job);
  let mref = mod_ref(&mut heap, &modname);
  let mut error_set = ErrorSet::new();
  let mut parsed = HashMap::new();
  for (m, text) in &sources {
    parsed.insert(*m, samlang_parser::parse_source_module_from_text(text, *m, &mut heap, &mut error_set));
  }
  let syntax_errors: Vec<Value> = error_json(&heap, &sources, &error_set);
  let mut out = json!({"id": job["id"], "module": modname, "syntax_errors": syntax_errors});
  let Some(pm) = parsed.get(&mref) else {
    out["error"] = json!("module not among the sources");
    return out;
  };
  if job["want"].as_str() == Some("sig") {
    out["sig"] = sig(&heap, mref, pm);
    return out;
  }
  let (checked, _) = samlang_checker::type_check_sources(&parsed, &mut error_set);
  out["errors"] = json!(error_json(&heap, &sources, &error_set));
  out["sites"] = sites(&heap, mref, pm, &checked[&mref]);
  out
}

pub fn main(_args: &[String]) {
  let stdin = std::io::stdin();
  for line in stdin.lock().lines() {
    let line = line.unwrap();
    if line.trim().is_empty() {
      continue;
    }
    let job: Value = serde_json::from_str(&line).unwrap();
    let r = match catch_unwind(AssertUnwindSafe(|| run_job(&job))) {
      Ok(v) => v,
      Err(e) => json!({"id": job["id"], "panic": panic_msg(e)}),
    };
    println!("{}", r);
  }
}
