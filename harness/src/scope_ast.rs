//! C15 (visitor model) — `vh scope-ast`: one JSON job per line on stdin
//!   {"id": any, "module": "Mod.Name", "text": source text}
//! and one JSON result per line:
//!   {"id", "module", "syntax_errors": [...], "panic": null | "...",
//!    "ast":   the module as a term of coq/theories/C15v/Syntax.v (built by an independent walk over the parsed AST,
//!             see `Dump`; nothing of ssa_analysis.rs is consulted),
//!    "trace": the raw log of the calls on `SsaLocalStackedContext` made by `perform_ssa_analysis_on_module` on this
//!             module (hook `samlang_checker::verif`, exactly as in scope_run.rs): ["P"] push_scope, ["O"] pop_scope,
//!             ["U", loc] use_id entered, ["G", name, for_type] get, ["I", name, loc] insert, ["L", loc] lambda frame,
//!    "segments": for every member, in the order of the "members" lists of the toplevels of "ast", the half-open range
//!             [start, end) of raw trace indices of the events emitted while that member was visited (found from the
//!             bracket structure of the logged trace alone: members are the scopes opened directly inside the third
//!             (methods) and the fourth (functions) scope of a toplevel's scope), or null when the bracket structure of
//!             the trace does not have that shape ("split_error" says why),
//!    "use_define": SsaAnalysisResult.use_define_map as sorted [use loc, definition loc] pairs}
//! JSON shapes:
//!   loc    = [start line, start column, end line, end column]
//!   annot  = ["prim"] | ["id", same_module, name, loc, [annot]] | ["gen", name, loc] | ["fn", [annot], annot]
//!   pat    = ["tuple", [pat]] | ["object", [pat]] | ["variant", [pat]] | ["id", name, loc] | ["wild"] | ["or", [pat]]
//!   expr   = ["lit"] | ["classid"] | ["id", name, loc] | ["tuple", [expr]] | ["field", expr, [annot]]
//!          | ["method", expr, [annot]] | ["unary", expr] | ["call", expr, [expr]] | ["binary", expr, expr]
//!          | ["if", ifelse] | ["match", expr, [[pat, expr]]] | ["lambda", loc, [[name, loc, annot | null]], expr]
//!          | ["block", block]
//!   ifelse = ["bool", expr, block, else] | ["let", pat, expr, block, else];  else = ["if", ifelse] | ["block", block]
//!   block  = {"stmts": [["let", pat, annot | null, expr] | ["expr", expr]], "final": expr | null}
use crate::front::{mod_ref, panic_msg};
use samlang_ast::{
  Location,
  source::{ClassMemberDeclaration, Module, Toplevel, TypeDefinition, annotation, expr, pattern},
};
use samlang_checker::verif::{SsaEvent, take_ssa_events};
use samlang_errors::ErrorSet;
use samlang_heap::{Heap, ModuleReference};
use serde_json::{Value, json};
use std::collections::HashMap;
use std::io::BufRead;
use std::panic::{AssertUnwindSafe, catch_unwind};

fn l4(l: &Location) -> [u32; 4] {
  [l.start.0, l.start.1, l.end.0, l.end.1]
}

struct Dump<'a> {
  heap: &'a Heap,
  mref: ModuleReference,
}

impl<'a> Dump<'a> {
  fn name(&self, id: &samlang_ast::source::Id) -> String {
    id.name.as_str(self.heap).to_string()
  }

  fn annots<'b>(&self, it: impl Iterator<Item = &'b annotation::T>) -> Vec<Value> {
    it.map(|a| self.annot(a)).collect()
  }

  fn targs(&self, t: &Option<annotation::TypeArguments>) -> Vec<Value> {
    match t {
      Some(t) => self.annots(t.arguments.iter()),
      None => vec![],
    }
  }

  fn annot(&self, a: &annotation::T) -> Value {
    match a {
      annotation::T::Primitive(_, _, _) => json!(["prim"]),
      annotation::T::Id(id) => json!([
        "id",
        id.module_reference == self.mref,
        self.name(&id.id),
        l4(&id.location),
        self.targs(&id.type_arguments)
      ]),
      annotation::T::Generic(_, id) => json!(["gen", self.name(id), l4(&id.loc)]),
      annotation::T::Fn(f) => json!(["fn", self.annots(f.parameters.annotations.iter()), self.annot(&f.return_type)]),
    }
  }

  fn pat(&self, p: &pattern::MatchingPattern<()>) -> Value {
    match p {
      pattern::MatchingPattern::Tuple(t) => {
        json!(["tuple", t.elements.iter().map(|e| self.pat(&e.pattern)).collect::<Vec<_>>()])
      }
      pattern::MatchingPattern::Object { elements, .. } => {
        json!(["object", elements.iter().map(|e| self.pat(&e.pattern)).collect::<Vec<_>>()])
      }
      pattern::MatchingPattern::Variant(v) => json!([
        "variant",
        v.data_variables.iter().flat_map(|t| &t.elements).map(|e| self.pat(&e.pattern)).collect::<Vec<_>>()
      ]),
      pattern::MatchingPattern::Id(id, ()) => json!(["id", self.name(id), l4(&id.loc)]),
      pattern::MatchingPattern::Wildcard { .. } => json!(["wild"]),
      pattern::MatchingPattern::Or { patterns, .. } => {
        json!(["or", patterns.iter().map(|q| self.pat(q)).collect::<Vec<_>>()])
      }
    }
  }

  fn block(&self, b: &expr::Block<()>) -> Value {
    let stmts: Vec<Value> = b
      .statements
      .iter()
      .map(|s| match s {
        expr::Statement::Declaration(d) => json!([
          "let",
          self.pat(&d.pattern),
          d.annotation.as_ref().map(|a| self.annot(a)),
          self.expr(&d.assigned_expression)
        ]),
        expr::Statement::Expression(e) => json!(["expr", self.expr(e)]),
      })
      .collect();
    json!({"stmts": stmts, "final": b.expression.as_ref().map(|e| self.expr(e))})
  }

  fn if_else(&self, e: &expr::IfElse<()>) -> Value {
    let e2 = match e.e2.as_ref() {
      expr::IfElseOrBlock::IfElse(i) => json!(["if", self.if_else(i)]),
      expr::IfElseOrBlock::Block(b) => json!(["block", self.block(b)]),
    };
    match e.condition.as_ref() {
      expr::IfElseCondition::Expression(g) => json!(["bool", self.expr(g), self.block(&e.e1), e2]),
      expr::IfElseCondition::Guard(p, g) => json!(["let", self.pat(p), self.expr(g), self.block(&e.e1), e2]),
    }
  }

  fn expr(&self, e: &expr::E<()>) -> Value {
    match e {
      expr::E::Literal(_, _) => json!(["lit"]),
      expr::E::ClassId(_, _, _) => json!(["classid"]),
      expr::E::LocalId(_, id) => json!(["id", self.name(id), l4(&id.loc)]),
      expr::E::Tuple(_, es) => json!(["tuple", es.expressions.iter().map(|x| self.expr(x)).collect::<Vec<_>>()]),
      expr::E::FieldAccess(x) => json!(["field", self.expr(&x.object), self.targs(&x.explicit_type_arguments)]),
      expr::E::MethodAccess(x) => json!(["method", self.expr(&x.object), self.targs(&x.explicit_type_arguments)]),
      expr::E::Unary(x) => json!(["unary", self.expr(&x.argument)]),
      expr::E::Call(x) => json!([
        "call",
        self.expr(&x.callee),
        x.arguments.expressions.iter().map(|a| self.expr(a)).collect::<Vec<_>>()
      ]),
      expr::E::Binary(x) => json!(["binary", self.expr(&x.e1), self.expr(&x.e2)]),
      expr::E::IfElse(x) => json!(["if", self.if_else(x)]),
      expr::E::Match(x) => json!([
        "match",
        self.expr(&x.matched),
        x.cases.iter().map(|c| json!([self.pat(&c.pattern), self.expr(&c.body)])).collect::<Vec<_>>()
      ]),
      expr::E::Lambda(x) => json!([
        "lambda",
        l4(&x.common.loc),
        x.parameters
          .parameters
          .iter()
          .map(|p| json!([self.name(&p.name), l4(&p.name.loc), p.annotation.as_ref().map(|a| self.annot(a))]))
          .collect::<Vec<_>>(),
        self.expr(&x.body)
      ]),
      expr::E::Block(b) => json!(["block", self.block(b)]),
    }
  }

  fn tparams(&self, t: Option<&annotation::TypeParameters>) -> Vec<Value> {
    match t {
      None => vec![],
      Some(t) => t
        .parameters
        .iter()
        .map(|p| {
          json!([
            self.name(&p.name),
            l4(&p.name.loc),
            p.bound.as_ref().map(|b| json!([self.name(&b.id), l4(&b.id.loc), self.targs(&b.type_arguments)]))
          ])
        })
        .collect(),
    }
  }

  fn member(&self, d: &ClassMemberDeclaration, body: Option<&expr::E<()>>) -> Value {
    let end = body.map(|b| b.loc()).unwrap_or(d.loc);
    json!({
      "method": d.is_method,
      "name": self.name(&d.name),
      "loc": l4(&d.name.loc),
      "span": [d.loc.start.0, d.loc.start.1, end.end.0.max(d.loc.end.0), if end.end.0 >= d.loc.end.0 { end.end.1 } else { d.loc.end.1 }],
      "tparams": self.tparams(d.type_parameters.as_ref()),
      "params": d.parameters.parameters.iter().map(|p| json!([self.name(&p.name), l4(&p.name.loc), self.annot(&p.annotation)])).collect::<Vec<_>>(),
      "ret": self.annot(&d.return_type),
      "body": body.map(|b| self.expr(b)),
    })
  }

  fn toplevel(&self, t: &Toplevel<()>) -> Value {
    let members: Vec<Value> = match t {
      Toplevel::Class(c) => c.members.members.iter().map(|m| self.member(&m.decl, Some(&m.body))).collect(),
      Toplevel::Interface(i) => i.members.members.iter().map(|m| self.member(m, None)).collect(),
    };
    let ext: Vec<Value> = t
      .extends_or_implements_nodes()
      .iter()
      .flat_map(|it| &it.nodes)
      .map(|n| json!([self.name(&n.id), l4(&n.id.loc), self.targs(&n.type_arguments)]))
      .collect();
    let def = t.type_definition().map(|d| match d {
      TypeDefinition::Struct { fields, .. } => json!([
        "struct",
        fields.iter().map(|f| json!([self.name(&f.name), l4(&f.name.loc), self.annot(&f.annotation)])).collect::<Vec<_>>()
      ]),
      TypeDefinition::Enum { variants, .. } => json!([
        "enum",
        variants
          .iter()
          .map(|v| json!([
            self.name(&v.name),
            l4(&v.name.loc),
            self.annots(v.associated_data_types.iter().flat_map(|it| &it.annotations))
          ]))
          .collect::<Vec<_>>()
      ]),
    });
    json!({
      "class": t.is_class(),
      "name": self.name(t.name()),
      "nloc": l4(&t.name().loc),
      "loc": l4(&t.loc()),
      "tparams": self.tparams(t.type_parameters()),
      "ext": ext,
      "def": def,
      "members": members,
    })
  }

  fn module(&self, m: &Module<()>) -> Value {
    let imports: Vec<Value> = m
      .imports
      .iter()
      .flat_map(|i| &i.imported_members)
      .map(|id| json!([self.name(id), l4(&id.loc)]))
      .collect();
    json!({"imports": imports, "tops": m.toplevels.iter().map(|t| self.toplevel(t)).collect::<Vec<_>>()})
  }
}

/// The ranges of the member scopes, from the bracket structure of the raw trace alone.
/// `shape[i]` = (number of methods, number of functions) of toplevel i; the result lists, per toplevel, the
/// methods' ranges and then the functions' ranges, both in visiting order.
fn split(raw: &[SsaEvent], shape: &[(usize, usize)]) -> Result<Vec<Vec<(usize, usize)>>, String> {
  // children[d] = completed groups at depth d of the group currently open at depth d - 1
  let mut out: Vec<Vec<(usize, usize)>> = vec![];
  let mut depth = 0usize;
  // indices of the Push that opened the groups on the current path
  let mut open: Vec<usize> = vec![];
  // for the toplevel group being read: number of completed depth-1 groups, and the member ranges seen
  let mut sub = 0usize;
  let mut cur: Vec<(usize, usize)> = vec![];
  for (i, e) in raw.iter().enumerate() {
    match e {
      SsaEvent::Push => {
        open.push(i);
        depth += 1;
      }
      SsaEvent::Pop => {
        if depth == 0 {
          return Err(format!("pop_scope at event {i} without a matching push_scope"));
        }
        let start = open.pop().unwrap();
        depth -= 1;
        match depth {
          2 => {
            // a scope opened directly inside the sub-th scope of a toplevel
            if sub == 2 || sub == 3 {
              cur.push((start, i + 1));
            }
          }
          1 => sub += 1,
          0 => {
            if sub != 4 {
              return Err(format!("toplevel scope closed at event {i} has {sub} inner scopes, expected 4"));
            }
            out.push(std::mem::take(&mut cur));
            sub = 0;
          }
          _ => {}
        }
      }
      _ => {}
    }
  }
  if depth != 0 {
    return Err(format!("{depth} scopes still open at the end of the trace"));
  }
  if out.len() != shape.len() {
    return Err(format!("{} toplevel scopes in the trace, {} toplevels in the module", out.len(), shape.len()));
  }
  for (k, (segs, (nm, nf))) in out.iter().zip(shape.iter()).enumerate() {
    if segs.len() != nm + nf {
      return Err(format!("toplevel {k}: {} member scopes in the trace, {} members in the module", segs.len(), nm + nf));
    }
  }
  Ok(out)
}

pub fn run_job(job: &Value) -> Value {
  let modname = job["module"].as_str().unwrap().to_string();
  let text = job["text"].as_str().unwrap().to_string();
  let mut heap = Heap::new();
  let mref = mod_ref(&mut heap, &modname);
  let mut pes = ErrorSet::new();
  let mut out = json!({"id": job["id"], "module": modname, "panic": null});
  let parsed = match catch_unwind(AssertUnwindSafe(|| {
    samlang_parser::parse_source_module_from_text(&text, mref, &mut heap, &mut pes)
  })) {
    Ok(m) => m,
    Err(e) => {
      out["panic"] = json!(format!("parser: {}", panic_msg(e)));
      return out;
    }
  };
  let srcs: HashMap<ModuleReference, String> = HashMap::from([(mref, text.clone())]);
  out["syntax_errors"] = json!(pes.errors().iter().map(|e| e.to_ide_format(&heap, &srcs).ide_error).collect::<Vec<_>>());
  // (i) the syntax, by a walk of our own
  let d = Dump { heap: &heap, mref };
  let ast = match catch_unwind(AssertUnwindSafe(|| d.module(&parsed))) {
    Ok(v) => v,
    Err(e) => {
      out["panic"] = json!(format!("dump: {}", panic_msg(e)));
      return out;
    }
  };
  // (ii) the trace of the real analysis
  let _ = take_ssa_events();
  let mut es = ErrorSet::new();
  let res = catch_unwind(AssertUnwindSafe(|| samlang_checker::perform_ssa_analysis_on_module(mref, &parsed, &mut es)));
  let raw = take_ssa_events();
  match res {
    Err(e) => out["panic"] = json!(format!("ssa: {}", panic_msg(e))),
    Ok(r) => {
      // the result the services read: use_define_map, for the direct comparison with the declarative rules
      let mut ud: Vec<([u32; 4], [u32; 4])> = r.use_define_map.iter().map(|(u, d)| (l4(u), l4(d))).collect();
      ud.sort();
      out["use_define"] = json!(ud);
    }
  }
  let trace: Vec<Value> = raw
    .iter()
    .map(|e| match e {
      SsaEvent::Push => json!(["P"]),
      SsaEvent::Pop => json!(["O"]),
      SsaEvent::Get(n, ft) => json!(["G", n.as_str(&heap), ft]),
      SsaEvent::Insert(n, l) => json!(["I", n.as_str(&heap), l4(l)]),
      SsaEvent::UseAt(l) => json!(["U", l4(l)]),
      SsaEvent::LambdaFrame(l) => json!(["L", l4(l)]),
    })
    .collect();
  // member segments, mapped from visiting order (methods, then functions) to the order of the member lists
  let shape: Vec<(usize, usize)> = parsed
    .toplevels
    .iter()
    .map(|t| {
      let n = t.members_iter().count();
      let nm = t.members_iter().filter(|m| m.is_method).count();
      (nm, n - nm)
    })
    .collect();
  match split(&raw, &shape) {
    Ok(per_top) => {
      let mut segs: Vec<Value> = vec![];
      for (t, ranges) in parsed.toplevels.iter().zip(per_top.iter()) {
        let (mut im, mut ifn) = (0usize, t.members_iter().filter(|m| m.is_method).count());
        for m in t.members_iter() {
          let r = if m.is_method {
            im += 1;
            ranges[im - 1]
          } else {
            ifn += 1;
            ranges[ifn - 1]
          };
          segs.push(json!([r.0, r.1]));
        }
      }
      out["segments"] = json!(segs);
    }
    Err(why) => {
      out["segments"] = Value::Null;
      out["split_error"] = json!(why);
    }
  }
  out["ast"] = ast;
  out["trace"] = json!(trace);
  out
}

pub fn main(_args: &[String]) {
  let stdin = std::io::stdin();
  for line in stdin.lock().lines() {
    let line = line.unwrap();
    if line.trim().is_empty() {
      continue;
    }
    let job: Value = serde_json::from_str(&line).unwrap();
    let r = match catch_unwind(AssertUnwindSafe(|| run_job(&job))) {
      Ok(v) => v,
      Err(e) => json!({"id": job["id"], "harness_panic": panic_msg(e)}),
    };
    println!("{}", r);
  }
}
