//! C15 — scoping: the scope-stack machine of `ssa_analysis.rs`, go-to-definition, find-references, rename.
//!
//! `vh scope-run`: one JSON job per line on stdin
//!   {"id": any, "sources": {"Mod.Name": text, ...}, "module": "Mod.Name", "with_std": bool (default true),
//!    "queries": bool (default true), "renames": "none" | "binders" | "all" (default "all"),
//!    "max_renames": n (default unlimited; occurrences are taken in source order with stride),
//!    "fresh": ["zq1", ...]  candidate new names (the first one absent from the trace is used),
//!    "extra_renames": [{"pos": [line, col], "new": "name"}]  renames at explicit positions of the *formatted* text,
//!    "keep_text": bool (default false: the module is first brought to the printer's fixpoint, because
//!                 `rewrite::rename` returns a freshly printed document)}
//! and one JSON result per line (see `run_job`).
//!
//! Layer B: `analysis` = the raw log of the calls on `SsaLocalStackedContext` (hook `samlang_checker::verif`)
//! while `perform_ssa_analysis_on_module` runs on ONE module on this thread, plus the maps of `SsaAnalysisResult`.
//! Raw events: ["P"] push_scope, ["O"] pop_scope, ["U", loc] use_id entered, ["G", name, for_type] get,
//! ["I", name, loc] insert, ["L", loc] the frame just popped is the capture set of the lambda at loc.
//! Layer C: every identifier occurrence found by an independent walk over the parsed AST is used as the
//! query position of `query::definition_location`, `query::all_references` and `rewrite::rename`.
use crate::front::{load_sources, mod_ref, panic_msg};
use samlang_ast::{
  Location, Position,
  source::{Module, Toplevel, expr, pattern},
};
use samlang_checker::verif::{SsaEvent, take_ssa_events};
use samlang_errors::{ErrorDetail, ErrorSet};
use samlang_heap::{Heap, ModuleReference};
use samlang_services::{query, rewrite, server_state::ServerState};
use serde_json::{Value, json};
use std::collections::{BTreeMap, BTreeSet, HashMap};
use std::io::BufRead;
use std::panic::{AssertUnwindSafe, catch_unwind};

type L4 = [u32; 4];

fn l4(l: &Location) -> L4 {
  [l.start.0, l.start.1, l.end.0, l.end.1]
}

#[derive(Clone, Debug, PartialEq)]
enum Ev {
  Push,
  Pop,
  UseAt(L4),
  Get(String, bool),
  Insert(String, L4),
  Lambda(L4),
}

impl Ev {
  fn json(&self) -> Value {
    match self {
      Ev::Push => json!(["P"]),
      Ev::Pop => json!(["O"]),
      Ev::UseAt(l) => json!(["U", l]),
      Ev::Get(n, ft) => json!(["G", n, ft]),
      Ev::Insert(n, l) => json!(["I", n, l]),
      Ev::Lambda(l) => json!(["L", l]),
    }
  }
}

struct Analysis {
  syntax_errors: Vec<String>,
  printed: String,
  events: Vec<Ev>,
  use_define: Vec<(L4, L4)>,
  def_to_use: Vec<(L4, Vec<L4>)>,
  lambda_captures: Vec<(L4, Vec<(String, L4)>)>,
  unbound: Vec<String>,
  invalid_defines: Vec<L4>,
  errors: Vec<Value>,
  occurrences: Vec<Occ>,
  patterns: Vec<Value>,
  panic: Option<String>,
}

#[derive(Clone)]
struct Occ {
  name: String,
  loc: L4,
  kind: &'static str,
  /// inside a non-first alternative of an or-pattern
  later_alt: bool,
  /// inside an or-pattern that itself sits in a non-first alternative of an enclosing or-pattern
  nested_or_later: bool,
  /// for `{ f as x }` / `{ f }`: the field name
  field: Option<String>,
}

struct Walk<'a> {
  heap: &'a Heap,
  out: Vec<Occ>,
  /// every top-level pattern (let / if-let / match arm) as a term of the Coq type `pat`:
  /// ["id", name, loc] | ["w"] | ["n", [children]] | ["or", first, [later alternatives]]
  pats: Vec<Value>,
}

impl<'a> Walk<'a> {
  fn push(&mut self, id: &samlang_ast::source::Id, kind: &'static str, later: bool, nested: bool, field: Option<String>) {
    self.out.push(Occ {
      name: id.name.as_str(self.heap).to_string(),
      loc: l4(&id.loc),
      kind,
      later_alt: later,
      nested_or_later: nested,
      field,
    });
  }

  fn pat(&mut self, p: &pattern::MatchingPattern<()>, later: bool, nested: bool, field: Option<String>) {
    match p {
      pattern::MatchingPattern::Tuple(t) => {
        for e in &t.elements {
          self.pat(&e.pattern, later, nested, None);
        }
      }
      pattern::MatchingPattern::Object { elements, .. } => {
        for e in elements {
          let f = e.field_name.name.as_str(self.heap).to_string();
          self.pat(&e.pattern, later, nested, Some(f));
        }
      }
      pattern::MatchingPattern::Variant(v) => {
        if let Some(t) = &v.data_variables {
          for e in &t.elements {
            self.pat(&e.pattern, later, nested, None);
          }
        }
      }
      pattern::MatchingPattern::Id(id, ()) => self.push(id, "pat", later, nested, field),
      pattern::MatchingPattern::Wildcard { .. } => {}
      pattern::MatchingPattern::Or { patterns, .. } => {
        for (i, q) in patterns.iter().enumerate() {
          self.pat(q, later || i > 0, nested || later, None);
        }
      }
    }
  }

  fn pat_term(&self, p: &pattern::MatchingPattern<()>) -> Value {
    match p {
      pattern::MatchingPattern::Tuple(t) => {
        json!(["n", t.elements.iter().map(|e| self.pat_term(&e.pattern)).collect::<Vec<_>>()])
      }
      pattern::MatchingPattern::Object { elements, .. } => {
        json!(["n", elements.iter().map(|e| self.pat_term(&e.pattern)).collect::<Vec<_>>()])
      }
      pattern::MatchingPattern::Variant(v) => json!([
        "n",
        v.data_variables.iter().flat_map(|t| &t.elements).map(|e| self.pat_term(&e.pattern)).collect::<Vec<_>>()
      ]),
      pattern::MatchingPattern::Id(id, ()) => json!(["id", id.name.as_str(self.heap), l4(&id.loc)]),
      pattern::MatchingPattern::Wildcard { .. } => json!(["w"]),
      pattern::MatchingPattern::Or { patterns, .. } => json!([
        "or",
        self.pat_term(&patterns[0]),
        patterns[1..].iter().map(|q| self.pat_term(q)).collect::<Vec<_>>()
      ]),
    }
  }

  fn top_pat(&mut self, p: &pattern::MatchingPattern<()>) {
    let t = self.pat_term(p);
    self.pats.push(t);
    self.pat(p, false, false, None);
  }

  fn block(&mut self, b: &expr::Block<()>) {
    for s in &b.statements {
      match s {
        expr::Statement::Declaration(d) => {
          self.expr(&d.assigned_expression);
          self.top_pat(&d.pattern);
        }
        expr::Statement::Expression(e) => self.expr(e),
      }
    }
    if let Some(e) = &b.expression {
      self.expr(e);
    }
  }

  fn if_else(&mut self, e: &expr::IfElse<()>) {
    match e.condition.as_ref() {
      expr::IfElseCondition::Expression(g) => self.expr(g),
      expr::IfElseCondition::Guard(p, g) => {
        self.expr(g);
        self.top_pat(p);
      }
    }
    self.block(&e.e1);
    match e.e2.as_ref() {
      expr::IfElseOrBlock::IfElse(e) => self.if_else(e),
      expr::IfElseOrBlock::Block(b) => self.block(b),
    }
  }

  fn expr(&mut self, e: &expr::E<()>) {
    match e {
      expr::E::Literal(_, _) | expr::E::ClassId(_, _, _) => {}
      expr::E::LocalId(_, id) => {
        let kind = if id.name.as_str(self.heap) == "this" { "this" } else { "use" };
        self.push(id, kind, false, false, None)
      }
      expr::E::Tuple(_, es) => {
        for x in &es.expressions {
          self.expr(x);
        }
      }
      expr::E::FieldAccess(x) => self.expr(&x.object),
      expr::E::MethodAccess(x) => self.expr(&x.object),
      expr::E::Unary(x) => self.expr(&x.argument),
      expr::E::Call(x) => {
        self.expr(&x.callee);
        for a in &x.arguments.expressions {
          self.expr(a);
        }
      }
      expr::E::Binary(x) => {
        self.expr(&x.e1);
        self.expr(&x.e2);
      }
      expr::E::IfElse(x) => self.if_else(x),
      expr::E::Match(x) => {
        self.expr(&x.matched);
        for c in &x.cases {
          self.top_pat(&c.pattern);
          self.expr(&c.body);
        }
      }
      expr::E::Lambda(x) => {
        for p in &x.parameters.parameters {
          self.push(&p.name, "lparam", false, false, None);
        }
        self.expr(&x.body);
      }
      expr::E::Block(b) => self.block(b),
    }
  }

  fn module(&mut self, m: &Module<()>) {
    for t in &m.toplevels {
      match t {
        Toplevel::Class(c) => {
          for mem in &c.members.members {
            for p in mem.decl.parameters.parameters.iter() {
              self.push(&p.name, "param", false, false, None);
            }
            self.expr(&mem.body);
          }
        }
        Toplevel::Interface(i) => {
          for mem in &i.members.members {
            for p in mem.parameters.parameters.iter() {
              // parameter of a method signature of an interface
              self.push(&p.name, "iparam", false, false, None);
            }
          }
        }
      }
    }
  }
}

/// Parse `text` in a heap of its own, run SSA analysis on this thread and read the hook log.
fn analyse(modname: &str, text: &str, width: usize) -> Analysis {
  let mut heap = Heap::new();
  let mref = mod_ref(&mut heap, modname);
  let mut pes = ErrorSet::new();
  let mut a = Analysis {
    syntax_errors: vec![],
    printed: String::new(),
    events: vec![],
    use_define: vec![],
    def_to_use: vec![],
    lambda_captures: vec![],
    unbound: vec![],
    invalid_defines: vec![],
    errors: vec![],
    occurrences: vec![],
    patterns: vec![],
    panic: None,
  };
  let parsed = match catch_unwind(AssertUnwindSafe(|| {
    samlang_parser::parse_source_module_from_text(text, mref, &mut heap, &mut pes)
  })) {
    Ok(m) => m,
    Err(e) => {
      a.panic = Some(format!("parser: {}", panic_msg(e)));
      return a;
    }
  };
  let srcs: HashMap<ModuleReference, String> = HashMap::from([(mref, text.to_string())]);
  for e in pes.errors() {
    a.syntax_errors.push(e.to_ide_format(&heap, &srcs).ide_error);
  }
  match catch_unwind(AssertUnwindSafe(|| samlang_printer::pretty_print_source_module(&heap, width, &parsed))) {
    Ok(s) => a.printed = s,
    Err(e) => {
      a.panic = Some(format!("printer: {}", panic_msg(e)));
      return a;
    }
  }
  let mut w = Walk { heap: &heap, out: vec![], pats: vec![] };
  w.module(&parsed);
  a.occurrences = w.out;
  a.patterns = w.pats;
  let _ = take_ssa_events();
  let mut es = ErrorSet::new();
  let res = catch_unwind(AssertUnwindSafe(|| {
    samlang_checker::perform_ssa_analysis_on_module(mref, &parsed, &mut es)
  }));
  let raw = take_ssa_events();
  for e in raw {
    a.events.push(match e {
      SsaEvent::Push => Ev::Push,
      SsaEvent::Pop => Ev::Pop,
      SsaEvent::Get(n, ft) => Ev::Get(n.as_str(&heap).to_string(), ft),
      SsaEvent::Insert(n, l) => Ev::Insert(n.as_str(&heap).to_string(), l4(&l)),
      SsaEvent::UseAt(l) => Ev::UseAt(l4(&l)),
      SsaEvent::LambdaFrame(l) => Ev::Lambda(l4(&l)),
    });
  }
  let res = match res {
    Ok(r) => r,
    Err(e) => {
      a.panic = Some(format!("ssa: {}", panic_msg(e)));
      return a;
    }
  };
  a.use_define = res.use_define_map.iter().map(|(u, d)| (l4(u), l4(d))).collect();
  a.use_define.sort();
  a.def_to_use = res
    .def_to_use_map
    .iter()
    .map(|(d, us)| {
      let mut v: Vec<L4> = us.iter().map(l4).collect();
      v.sort();
      (l4(d), v)
    })
    .collect();
  a.def_to_use.sort();
  a.lambda_captures = res
    .lambda_captures
    .iter()
    .map(|(l, m)| {
      let mut v: Vec<(String, L4)> = m.iter().map(|(n, d)| (n.as_str(&heap).to_string(), l4(d))).collect();
      v.sort();
      (l4(l), v)
    })
    .collect();
  a.lambda_captures.sort();
  a.unbound = res.unbound_names.iter().map(|n| n.as_str(&heap).to_string()).collect();
  a.unbound.sort();
  a.invalid_defines = res.invalid_defines.iter().map(l4).collect();
  a.invalid_defines.sort();
  for e in es.errors() {
    a.errors.push(match &e.detail {
      ErrorDetail::CannotResolveName { name } => json!(["unbound", name.as_str(&heap), l4(&e.location)]),
      ErrorDetail::NameAlreadyBound { name, old_loc } => {
        json!(["bound", name.as_str(&heap), l4(&e.location), l4(old_loc)])
      }
      other => json!(["other", format!("{:?}", other), l4(&e.location)]),
    });
  }
  a
}

fn analysis_json(a: &Analysis) -> Value {
  json!({
    "trace": a.events.iter().map(|e| e.json()).collect::<Vec<_>>(),
    "use_define": a.use_define,
    "def_to_use": a.def_to_use,
    "lambda_captures": a.lambda_captures,
    "unbound": a.unbound,
    "invalid_defines": a.invalid_defines,
    "errors": a.errors,
    "patterns": a.patterns,
    "panic": a.panic,
  })
}

/// Locations of a trace in order of first appearance.
fn loc_order(evs: &[Ev]) -> Vec<L4> {
  let mut seen = BTreeSet::new();
  let mut out = vec![];
  for e in evs {
    if let Ev::UseAt(l) | Ev::Insert(_, l) | Ev::Lambda(l) = e {
      if seen.insert(*l) {
        out.push(*l);
      }
    }
  }
  out
}

/// Same events up to names and up to a relabelling of locations (and is that relabelling monotone
/// on start positions?).
fn same_shape(t0: &[Ev], t1: &[Ev]) -> (bool, bool) {
  if t0.len() != t1.len() {
    return (false, false);
  }
  let (o0, o1) = (loc_order(t0), loc_order(t1));
  if o0.len() != o1.len() {
    return (false, false);
  }
  let m: BTreeMap<L4, L4> = o0.iter().cloned().zip(o1.iter().cloned()).collect();
  for (a, b) in t0.iter().zip(t1.iter()) {
    let ok = match (a, b) {
      (Ev::Push, Ev::Push) | (Ev::Pop, Ev::Pop) => true,
      (Ev::UseAt(l), Ev::UseAt(k)) | (Ev::Lambda(l), Ev::Lambda(k)) => m[l] == *k,
      (Ev::Get(_, f), Ev::Get(_, g)) => f == g,
      (Ev::Insert(_, l), Ev::Insert(_, k)) => m[l] == *k,
      _ => false,
    };
    if !ok {
      return (false, false);
    }
  }
  let mut pairs: Vec<([u32; 2], [u32; 2])> = m.iter().map(|(a, b)| ([a[0], a[1]], [b[0], b[1]])).collect();
  pairs.sort();
  let monotone = pairs.windows(2).all(|w| w[0].1 <= w[1].1);
  (true, monotone)
}

fn names_of(evs: &[Ev]) -> Vec<&str> {
  evs
    .iter()
    .filter_map(|e| match e {
      Ev::Get(n, _) | Ev::Insert(n, _) => Some(n.as_str()),
      _ => None,
    })
    .collect()
}

fn render_all(state: &ServerState) -> Vec<String> {
  let mut out = vec![];
  let mut mods: Vec<&ModuleReference> = state.all_modules();
  mods.sort();
  for m in mods {
    for e in state.get_errors(m) {
      let ide = e.to_ide_format(&state.heap, &state.string_sources);
      out.push(format!("{}:{}", m.pretty_print(&state.heap), ide.ide_error));
    }
  }
  out.sort();
  out
}

fn pos_json(p: Position) -> Value {
  json!([p.0, p.1])
}

pub fn run_job(job: &Value) -> Value {
  let modname = job["module"].as_str().unwrap().to_string();
  let width = 100; // the width `rewrite::rename` prints with
  let text0 = job["sources"][&modname].as_str().unwrap().to_string();
  // 1. bring the module to the printer's fixpoint
  let mut text = text0.clone();
  let mut a0 = analyse(&modname, &text, width);
  let mut format_rounds = 0;
  if !job["keep_text"].as_bool().unwrap_or(false) {
    while a0.panic.is_none() && a0.syntax_errors.is_empty() && a0.printed != text && format_rounds < 4 {
      text = a0.printed.clone();
      a0 = analyse(&modname, &text, width);
      format_rounds += 1;
    }
  }
  let fixpoint = a0.printed == text;
  let mut out = json!({
    "id": job["id"], "module": modname, "text": text, "format_rounds": format_rounds, "format_fixpoint": fixpoint,
    "syntax_errors": a0.syntax_errors, "analysis": analysis_json(&a0),
    "occurrences": a0.occurrences.iter().map(|o| json!({"name": o.name, "loc": o.loc, "kind": o.kind,
        "later_alt": o.later_alt, "nested_or_later": o.nested_or_later, "field": o.field})).collect::<Vec<_>>(),
  });
  if a0.panic.is_some() || !a0.syntax_errors.is_empty() || !job["queries"].as_bool().unwrap_or(true) {
    return out;
  }
  // 2. a language server holding the program
  let mut heap = Heap::new();
  let mut sources = load_sources(&mut heap, job);
  let mref = mod_ref(&mut heap, &modname);
  sources.insert(mref, text.clone());
  let mut state = match catch_unwind(AssertUnwindSafe(|| ServerState::new(heap, false, sources))) {
    Ok(s) => s,
    Err(e) => {
      out["server_panic"] = json!(panic_msg(e));
      return out;
    }
  };
  let diag0 = render_all(&state);
  out["diagnostics"] = json!(diag0);
  // 3. navigation queries at every occurrence: first character, last character, one past the end
  let mut qs = vec![];
  for o in &a0.occurrences {
    let mut per = vec![];
    let last = if o.loc[3] > 0 && o.loc[2] == o.loc[0] { Position(o.loc[2], o.loc[3] - 1) } else { Position(o.loc[0], o.loc[1]) };
    for p in [Position(o.loc[0], o.loc[1]), last, Position(o.loc[2], o.loc[3])] {
      let r = catch_unwind(AssertUnwindSafe(|| {
        (query::definition_location(&state, &mref, p), query::all_references(&state, &mref, p))
      }));
      per.push(match r {
        Ok((d, refs)) => json!({"pos": pos_json(p), "def": d.map(|l| l4(&l)),
                                 "def_module_ok": d.map(|l| l.module_reference == mref),
                                 "refs": refs.iter().map(l4).collect::<Vec<_>>()}),
        Err(e) => json!({"pos": pos_json(p), "panic": panic_msg(e)}),
      });
    }
    qs.push(Value::Array(per));
  }
  out["queries"] = json!(qs);
  // 4. renames
  let mode = job["renames"].as_str().unwrap_or("all");
  let trace_names: BTreeSet<&str> = names_of(&a0.events).into_iter().collect();
  let fresh: Vec<String> = job["fresh"]
    .as_array()
    .map(|v| v.iter().filter_map(|x| x.as_str().map(|s| s.to_string())).collect())
    .unwrap_or_default();
  let fresh_name = fresh.iter().find(|n| !trace_names.contains(n.as_str())).cloned();
  let locs0 = loc_order(&a0.events);
  let loc_index: BTreeMap<L4, usize> = locs0.iter().cloned().enumerate().map(|(i, l)| (l, i)).collect();
  // which occurrences
  let mut targets: Vec<(Option<usize>, Position, String)> = vec![];
  if mode != "none" {
    if let Some(fname) = &fresh_name {
      let mut seen_binders = BTreeSet::new();
      let resolve: BTreeMap<L4, L4> = a0.use_define.iter().cloned().collect();
      let cands: Vec<usize> = (0..a0.occurrences.len()).filter(|i| a0.occurrences[*i].kind != "this").collect();
      let max = job["max_renames"].as_u64().map(|n| n as usize).unwrap_or(usize::MAX);
      for (k, i) in cands.iter().enumerate() {
        let o = &a0.occurrences[*i];
        if mode == "binders" {
          let d = resolve.get(&o.loc).cloned().unwrap_or(o.loc);
          if !seen_binders.insert(d) {
            continue;
          }
        } else if cands.len() > max && (k * max) / cands.len() == ((k + 1) * max) / cands.len() {
          continue; // evenly spread sample of `max` occurrences
        }
        targets.push((Some(*i), Position(o.loc[0], o.loc[1]), fname.clone()));
        // `{ f as x }`: renaming x to f (when f is not a name of the trace) must print the shorthand `{ f }`
        if let Some(f) = &o.field {
          if *f != o.name && !trace_names.contains(f.as_str()) {
            targets.push((Some(*i), Position(o.loc[0], o.loc[1]), f.clone()));
          }
        }
      }
    }
  }
  if let Some(extra) = job["extra_renames"].as_array() {
    for x in extra {
      let p = Position(x["pos"][0].as_u64().unwrap() as u32, x["pos"][1].as_u64().unwrap() as u32);
      targets.push((None, p, x["new"].as_str().unwrap().to_string()));
    }
  }
  let mut renames = vec![];
  let mut texts_seen: Vec<String> = vec![];
  for (occ, pos, new_name) in targets {
    let mut r = json!({"occ": occ, "pos": pos_json(pos), "new": new_name});
    let f1 = match catch_unwind(AssertUnwindSafe(|| rewrite::rename(&mut state, &mref, pos, &new_name))) {
      Ok(x) => x,
      Err(e) => {
        r["panic"] = json!(panic_msg(e));
        renames.push(r);
        continue;
      }
    };
    let Some(f1) = f1 else {
      r["text"] = Value::Null;
      renames.push(r);
      continue;
    };
    if let Some(k) = texts_seen.iter().position(|t| *t == f1) {
      r["same_text_as"] = json!(k);
    } else {
      r["text_id"] = json!(texts_seen.len());
      texts_seen.push(f1.clone());
      r["text"] = json!(f1);
    }
    // the renamed document: diagnostics, trace, and renaming back
    let a1 = analyse(&modname, &f1, width);
    r["syntax_errors"] = json!(a1.syntax_errors);
    r["reprint_stable"] = json!(a1.printed == f1);
    if r.get("text").is_some() {
      let (shape, monotone) = same_shape(&a0.events, &a1.events);
      r["shape_ok"] = json!(shape);
      r["loc_order_ok"] = json!(monotone);
      r["names"] = json!(names_of(&a1.events));
      r["analysis_panic"] = json!(a1.panic);
      if !shape {
        r["trace"] = json!(a1.events.iter().map(|e| e.json()).collect::<Vec<_>>());
      }
    }
    let upd = catch_unwind(AssertUnwindSafe(|| state.update(vec![(mref, f1.clone())])));
    if let Err(e) = upd {
      r["update_panic"] = json!(panic_msg(e));
      renames.push(r);
      break; // the server state is unusable
    }
    r["diagnostics"] = json!(render_all(&state));
    // position of the same occurrence in the renamed document: the location with the same rank of first
    // appearance in the trace
    let old_name = occ.map(|i| a0.occurrences[i].name.clone()).or_else(|| {
      // extra rename: the occurrence starting at pos, if any
      a0.occurrences.iter().find(|o| o.loc[0] == pos.0 && o.loc[1] == pos.1).map(|o| o.name.clone())
    });
    let occ_loc = occ.map(|i| a0.occurrences[i].loc).or_else(|| {
      a0.occurrences.iter().find(|o| o.loc[0] == pos.0 && o.loc[1] == pos.1).map(|o| o.loc)
    });
    let locs1 = loc_order(&a1.events);
    let back_pos = occ_loc.and_then(|l| loc_index.get(&l)).and_then(|k| locs1.get(*k)).map(|l| Position(l[0], l[1]));
    if let (Some(bp), Some(old)) = (back_pos, old_name) {
      r["back_pos"] = pos_json(bp);
      match catch_unwind(AssertUnwindSafe(|| rewrite::rename(&mut state, &mref, bp, &old))) {
        Ok(Some(f2)) => {
          r["back_equal"] = json!(f2 == text);
          if f2 != text {
            r["back_text"] = json!(f2);
          }
        }
        Ok(None) => r["back_text"] = Value::Null,
        Err(e) => r["back_panic"] = json!(panic_msg(e)),
      }
    }
    let upd = catch_unwind(AssertUnwindSafe(|| state.update(vec![(mref, text.clone())])));
    if let Err(e) = upd {
      r["update_panic"] = json!(panic_msg(e));
      renames.push(r);
      break;
    }
    renames.push(r);
  }
  out["fresh_used"] = json!(fresh_name);
  out["renames"] = json!(renames);
  let diag_end = render_all(&state);
  out["diagnostics_restored"] = json!(diag_end == diag0);
  out
}

pub fn main(_args: &[String]) {
  let stdin = std::io::stdin();
  for line in stdin.lock().lines() {
    let line = line.unwrap();
    if line.trim().is_empty() {
      continue;
    }
    let job: Value = serde_json::from_str(&line).unwrap();
    let r = match catch_unwind(AssertUnwindSafe(|| run_job(&job))) {
      Ok(v) => v,
      Err(e) => json!({"id": job["id"], "harness_panic": panic_msg(e)}),
    };
    println!("{}", r);
  }
}
