//! C10/C11: run edit histories on a real samlang_services::ServerState and compare the
//! diagnostics it holds with those of a freshly started server on the same texts.
//! stdin: one JSON history per line {"id":..,"init":{mod:text},"ops":[...]}; stdout: one JSON result per line.
use crate::front::{mod_ref, panic_msg};
use samlang_heap::{Heap, ModuleReference};
use samlang_services::server_state::ServerState;
use serde_json::{Value, json};
use std::collections::{BTreeMap, BTreeSet, HashMap};
use std::io::BufRead;
use std::panic::{AssertUnwindSafe, catch_unwind};

fn render(state: &ServerState, m: &ModuleReference) -> Vec<Value> {
  let mut v: Vec<(Vec<u32>, String, Vec<Vec<u32>>)> = state
    .get_errors(m)
    .iter()
    .map(|e| {
      let ide = e.to_ide_format(&state.heap, &state.string_sources);
      (
        vec![e.location.start.0, e.location.start.1, e.location.end.0, e.location.end.1],
        ide.ide_error,
        ide.reference_locs.iter().map(|l| vec![l.start.0, l.start.1, l.end.0, l.end.1]).collect(),
      )
    })
    .collect();
  v.sort();
  v.into_iter().map(|(l, m, r)| json!({"loc": l, "msg": m, "refs": r})).collect()
}

pub fn snapshot(state: &ServerState, names: &BTreeSet<String>, heap_for_names: &mut dyn FnMut(&str) -> Option<ModuleReference>) -> BTreeMap<String, Vec<Value>> {
  let mut out = BTreeMap::new();
  for n in names {
    if let Some(m) = heap_for_names(n) {
      let r = render(state, &m);
      if !r.is_empty() {
        out.insert(n.clone(), r);
      }
    }
  }
  out
}

fn lookup(heap: &Heap, name: &str) -> Option<ModuleReference> {
  heap.get_allocated_module_reference_opt(name.split('.').map(|s| s.to_string()).collect())
}

fn fresh_snapshot(texts: &BTreeMap<String, String>, names: &BTreeSet<String>) -> BTreeMap<String, Vec<Value>> {
  let mut heap = Heap::new();
  let mut sources = HashMap::new();
  for (n, t) in texts {
    sources.insert(mod_ref(&mut heap, n), t.clone());
  }
  let state = ServerState::new(heap, false, sources);
  let mut out = BTreeMap::new();
  for n in names {
    if let Some(m) = lookup(&state.heap, n) {
      let r = render(&state, &m);
      if !r.is_empty() {
        out.insert(n.clone(), r);
      }
    }
  }
  out
}

pub fn run_history(job: &Value) -> Value {
  let mut heap = Heap::new();
  let mut texts: BTreeMap<String, String> = BTreeMap::new(); // the harness's own view of the file system
  let mut names: BTreeSet<String> = BTreeSet::new();
  let mut sources = HashMap::new();
  for (n, t) in job["init"].as_object().unwrap() {
    sources.insert(mod_ref(&mut heap, n), t.as_str().unwrap().to_string());
    texts.insert(n.clone(), t.as_str().unwrap().to_string());
    names.insert(n.clone());
  }
  let mut state = match catch_unwind(AssertUnwindSafe(|| ServerState::new(heap, false, sources))) {
    Ok(s) => s,
    Err(e) => return json!({"id": job["id"], "steps": [], "init_panic": panic_msg(e)}),
  };
  let mut steps = Vec::new();
  {
    let incr = {
      let mut out = BTreeMap::new();
      for n in &names {
        if let Some(m) = lookup(&state.heap, n) {
          let r = render(&state, &m);
          if !r.is_empty() {
            out.insert(n.clone(), r);
          }
        }
      }
      out
    };
    steps.push(json!({"op": "init", "incr": incr, "fresh": fresh_snapshot(&texts, &names)}));
  }
  for op in job["ops"].as_array().unwrap() {
    let kind = op["op"].as_str().unwrap();
    let r = catch_unwind(AssertUnwindSafe(|| match kind {
      "update" => {
        let mut ups = Vec::new();
        for pair in op["mods"].as_array().unwrap() {
          let n = pair[0].as_str().unwrap();
          let t = pair[1].as_str().unwrap();
          ups.push((mod_ref(&mut state.heap, n), t.to_string()));
          texts.insert(n.to_string(), t.to_string());
          names.insert(n.to_string());
        }
        state.update(ups);
      }
      "rename" => {
        let mut rs = Vec::new();
        for pair in op["pairs"].as_array().unwrap() {
          let a = pair[0].as_str().unwrap();
          let b = pair[1].as_str().unwrap();
          rs.push((mod_ref(&mut state.heap, a), mod_ref(&mut state.heap, b)));
          names.insert(a.to_string());
          names.insert(b.to_string());
          if let Some(t) = texts.remove(a) {
            texts.insert(b.to_string(), t);
          }
        }
        state.rename_module(rs);
      }
      "remove" => {
        let mut ms = Vec::new();
        for n in op["mods"].as_array().unwrap() {
          let n = n.as_str().unwrap();
          ms.push(mod_ref(&mut state.heap, n));
          names.insert(n.to_string());
          texts.remove(n);
        }
        state.remove(&ms);
      }
      other => panic!("unknown op {other}"),
    }));
    if let Err(e) = r {
      steps.push(json!({"op": kind, "panic": panic_msg(e)}));
      break;
    }
    let incr = {
      let mut out = BTreeMap::new();
      for n in &names {
        if let Some(m) = lookup(&state.heap, n) {
          let r = render(&state, &m);
          if !r.is_empty() {
            out.insert(n.clone(), r);
          }
        }
      }
      out
    };
    // sanity of the harness's own bookkeeping: the server's texts are the ones we think it has
    let mut server_texts = BTreeMap::new();
    for (m, t) in &state.string_sources {
      server_texts.insert(m.pretty_print(&state.heap), t.clone());
    }
    let texts_agree = server_texts == texts;
    let fresh = catch_unwind(AssertUnwindSafe(|| fresh_snapshot(&texts, &names)));
    match fresh {
      Ok(f) => steps.push(json!({"op": kind, "incr": incr, "fresh": f, "texts_agree": texts_agree})),
      Err(e) => steps.push(json!({"op": kind, "incr": incr, "fresh_panic": panic_msg(e)})),
    }
  }
  json!({"id": job["id"], "steps": steps})
}

pub fn main(_args: &[String]) {
  let stdin = std::io::stdin();
  for line in stdin.lock().lines() {
    let line = line.unwrap();
    if line.trim().is_empty() {
      continue;
    }
    let job: Value = serde_json::from_str(&line).unwrap();
    println!("{}", run_history(&job));
  }
}
