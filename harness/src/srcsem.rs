//! Reference interpreter of the samlang source language (layer C oracle). See DESIGN.md 3.2.
pub fn main(_args: &[String]) {
  eprintln!("src-run: not built yet");
  std::process::exit(2);
}
