//! Reference interpreter of the samlang *source* language (layer C oracle). See DESIGN.md 3.2.
//!
//! It evaluates the type-checked source AST (`Module<Arc<Type>>`) directly, following
//! /repo/packages/samlang-website/spec.md. Nothing here goes through the compiler's lowering or
//! optimisation passes: only the parser and the checker of /repo are used.
//!
//! Every place where spec.md is silent, self-contradictory, or says "implementation-defined" ends
//! the run with `Ending::Excluded(<rule>)` instead of picking a behaviour. The rules are listed in
//! `EXCLUDED_RULES` below with the spec sections they come from.
use samlang_ast::source::{
  ClassMemberDefinition, Literal, Module, Toplevel, TypeDefinition,
  expr::{self, BinaryOperator as Bop, E, UnaryOperator},
  pattern::{MatchingPattern, TuplePattern},
};
use samlang_checker::type_::Type;
use samlang_heap::{Heap, ModuleReference, PStr};
use std::{cell::RefCell, collections::HashMap, rc::Rc, sync::Arc};

// ------------------------------------------------------------------------------------------------
// Public API
// ------------------------------------------------------------------------------------------------

#[derive(Debug, Clone, PartialEq, Eq)]
pub enum Ending {
  /// `Main.main` returned.
  Return,
  /// `Process.panic(msg)`.
  Panic(String),
  /// Implementation-defined / unspecified behaviour reached; the string names the rule.
  Excluded(String),
  OutOfFuel,
  StackOverflow,
  /// Documented `Vec` panic (spec 5.12 / 10.3): `pop` on empty, `get`/`set` out of bounds.
  VecBounds(String),
  /// The parser or checker reported errors (rendered messages).
  Rejected(Vec<String>),
  /// Unsupported construct or internal inconsistency (e.g. exhaustive match fell through).
  InterpreterError(String),
}

#[derive(Debug, Clone, PartialEq, Eq)]
pub struct Outcome {
  pub lines: Vec<String>,
  pub ending: Ending,
}

/// The rules under which a run is `Excluded`, with their justification in spec.md.
pub const EXCLUDED_RULES: &[(&str, &str)] = &[
  ("overflow", "13.3: arithmetic that overflows the 32-bit range is implementation-defined (+ - * unary -, MIN / -1)"),
  ("div-by-zero", "6.9: division (and remainder) by zero is 'defined by the target platform'"),
  ("div-rounding-unspecified", "only with strict_div: 6.9 says 'integer division' only; 12.7 calls it 'truncating' while describing Math.floor"),
  ("rem-sign-unspecified", "6.9: '%' is 'Remainder (mod)'; sign of a non-zero result with a negative operand is not specified"),
  ("toInt-non-numeral", "10.1: Str.toInt on invalid input is implementation-defined; valid = IntLiteral grammar of 6.1"),
  ("toInt-out-of-range", "10.1 + 13.3: numeral outside the 32-bit range"),
  ("eq-on-objects", "6.9 says == is structural on nominal values, 5.12 says the default is reference identity; excluded when the two readings differ: operands separately built but structurally equal, or containing distinct function values"),
  ("call-order", "6.7.5 / 6.15(2): arguments are evaluated before the callee expression (the reverse of textual order); runs where the two orders are distinguishable are excluded"),
  ("vec-capacity-advisory", "5.12: capacity() is an implementation hint, backends may round up"),
  ("vec-negative-capacity", "5.12: withCapacity(n) for n < 0 is not specified"),
  ("vec-eq-identity", "5.12: Vec.eq compares non-primitive elements by reference identity; identity of separately built values is not specified"),
  ("user-defined-init", "4.1.1: init is auto-generated for struct classes; a user function named init in a struct class is not specified"),
];

/// How `f(args)` orders the evaluation of the callee expression and of the arguments.
#[derive(Debug, Clone, Copy, PartialEq, Eq)]
pub enum CallOrder {
  /// Spec order (arguments, then callee), but if the other order could be told apart => Excluded.
  Exclude,
  /// Literal spec 6.7.5 / 6.15: arguments left to right, then the callee expression.
  ArgsFirst,
  /// Textual order: callee expression (receiver), then arguments.
  CalleeFirst,
}

#[derive(Debug, Clone, Copy)]
pub struct Options {
  pub call_order: CallOrder,
  /// true: a division with a negative inexact quotient is Excluded("div-rounding-unspecified").
  /// false (default): truncation toward zero, the semantics named by spec 12.7.
  pub strict_div: bool,
  /// true: `%` with a negative operand and a non-zero result is Excluded("rem-sign-unspecified").
  pub strict_rem: bool,
  /// Native stack of the interpreter thread; 0 = derive from `max_depth` (about 6 KiB per level,
  /// between 256 MiB and 8 GiB of address space; pages are only touched when used). Running out
  /// of it is detected and reported as `StackOverflow`, never a crash.
  pub stack_bytes: usize,
}

impl Default for Options {
  fn default() -> Self {
    let env = |k: &str| std::env::var(k).ok();
    Options {
      call_order: match env("SRCSEM_CALL_ORDER").as_deref() {
        Some("args-first") => CallOrder::ArgsFirst,
        Some("callee-first") => CallOrder::CalleeFirst,
        _ => CallOrder::Exclude,
      },
      strict_div: env("SRCSEM_STRICT_DIV").is_some(),
      strict_rem: env("SRCSEM_STRICT_REM").is_some(),
      stack_bytes: env("SRCSEM_STACK_MB").and_then(|s| s.parse::<usize>().ok()).unwrap_or(0) << 20,
    }
  }
}

/// sources: (module name like "tests.Foo" or "Main", source text). std modules are added
/// automatically from /repo/std (or $SAMLANG_STD_DIR) unless a source with that name is given.
/// entry: module whose `class Main { function main(): unit = ... }` is run.
pub fn run_program(sources: &[(String, String)], entry: &str, fuel: u64, max_depth: usize) -> Outcome {
  run_program_with(sources, entry, fuel, max_depth, Options::default())
}

pub fn run_program_with(
  sources: &[(String, String)],
  entry: &str,
  fuel: u64,
  max_depth: usize,
  opts: Options,
) -> Outcome {
  let internal = |m: String| Outcome { lines: Vec::new(), ending: Ending::InterpreterError(m) };
  let mut opts = opts;
  if opts.stack_bytes == 0 {
    opts.stack_bytes = max_depth.saturating_mul(6 << 10).clamp(256 << 20, 8 << 30);
  }
  std::thread::scope(|scope| {
    let spawned = loop {
      let attempt = std::thread::Builder::new().stack_size(opts.stack_bytes).spawn_scoped(scope, move || {
        // Never panic: anything unexpected in the front end or in here becomes InterpreterError.
        std::panic::catch_unwind(std::panic::AssertUnwindSafe(|| {
          run_on_this_thread(sources, entry, fuel, max_depth, opts)
        }))
      });
      // A refused reservation is retried with half the size; the stack guard keeps that safe.
      if attempt.is_err() && opts.stack_bytes > (64 << 20) {
        opts.stack_bytes /= 2;
        continue;
      }
      break attempt;
    };
    match spawned {
      Err(e) => internal(format!("cannot spawn interpreter thread: {e}")),
      Ok(handle) => match handle.join() {
        Ok(Ok(outcome)) => outcome,
        Ok(Err(p)) | Err(p) => internal(format!("rust panic: {}", panic_message(&p))),
      },
    }
  })
}

fn panic_message(p: &Box<dyn std::any::Any + Send>) -> String {
  if let Some(s) = p.downcast_ref::<&str>() {
    s.to_string()
  } else if let Some(s) = p.downcast_ref::<String>() {
    s.clone()
  } else {
    "<non-string payload>".to_string()
  }
}

// ------------------------------------------------------------------------------------------------
// Front end: parse + check with the real /repo crates
// ------------------------------------------------------------------------------------------------

type Ty = Arc<Type>;
type Ex = E<Ty>;
type ClassKey = (ModuleReference, PStr);

fn std_sources() -> Result<Vec<(String, String)>, String> {
  let dir = std::env::var("SAMLANG_STD_DIR").unwrap_or_else(|_| "/repo/std".to_string());
  let mut out = Vec::new();
  let rd = std::fs::read_dir(&dir).map_err(|e| format!("cannot read std dir {dir}: {e}"))?;
  for entry in rd.flatten() {
    let path = entry.path();
    if path.extension().and_then(|s| s.to_str()) == Some("sam") {
      let stem = path.file_stem().and_then(|s| s.to_str()).unwrap_or("").to_string();
      let text = std::fs::read_to_string(&path).map_err(|e| format!("{}: {e}", path.display()))?;
      out.push((format!("std.{stem}"), text));
    }
  }
  out.sort();
  Ok(out)
}

fn run_on_this_thread(
  sources: &[(String, String)],
  entry: &str,
  fuel: u64,
  max_depth: usize,
  opts: Options,
) -> Outcome {
  let internal = |m: String| Outcome { lines: Vec::new(), ending: Ending::InterpreterError(m) };
  let mut all: Vec<(String, String)> = sources.to_vec();
  match std_sources() {
    Ok(stds) => {
      for (name, text) in stds {
        if !all.iter().any(|(n, _)| *n == name) {
          all.push((name, text));
        }
      }
    }
    Err(e) => return internal(e),
  }
  let mut heap = Heap::new();
  let mut error_set = samlang_errors::ErrorSet::new();
  let mut texts = HashMap::new();
  let mut parsed = HashMap::new();
  let mut entry_ref = None;
  for (name, text) in &all {
    let mod_ref =
      heap.alloc_module_reference_from_string_vec(name.split('.').map(|s| s.to_string()).collect());
    if name == entry {
      entry_ref = Some(mod_ref);
    }
    let module =
      samlang_parser::parse_source_module_from_text(text, mod_ref, &mut heap, &mut error_set);
    parsed.insert(mod_ref, module);
    texts.insert(mod_ref, text.clone());
  }
  let Some(entry_ref) = entry_ref else {
    return internal(format!("entry module {entry} is not among the sources"));
  };
  let (checked, _) = samlang_checker::type_check_sources(&parsed, &mut error_set);
  if error_set.has_errors() {
    let msgs = error_set
      .errors()
      .iter()
      .map(|e| {
        format!("{}: {}", e.location.pretty_print(&heap), e.to_ide_format(&heap, &texts).ide_error)
      })
      .collect();
    return Outcome { lines: Vec::new(), ending: Ending::Rejected(msgs) };
  }
  let mut interp = Interp::new(&heap, &checked, fuel, max_depth, opts);
  let ending = match interp.run_main(entry_ref) {
    Ok(()) => Ending::Return,
    Err(Stop::Panic(m)) => Ending::Panic(m),
    Err(Stop::Excluded(m)) => Ending::Excluded(m),
    Err(Stop::OutOfFuel) => Ending::OutOfFuel,
    Err(Stop::StackOverflow) => Ending::StackOverflow,
    Err(Stop::VecBounds(m)) => Ending::VecBounds(m),
    Err(Stop::Internal(m)) => Ending::InterpreterError(m),
  };
  Outcome { lines: std::mem::take(&mut interp.lines), ending }
}

// ------------------------------------------------------------------------------------------------
// Values and environments
// ------------------------------------------------------------------------------------------------

/// Why evaluation stopped before `Main.main` returned.
enum Stop {
  Panic(String),
  Excluded(String),
  OutOfFuel,
  StackOverflow,
  VecBounds(String),
  Internal(String),
}
type R<X> = Result<X, Stop>;

fn excluded<X>(rule: &str) -> R<X> {
  Err(Stop::Excluded(rule.to_string()))
}
fn internal<X>(msg: impl Into<String>) -> R<X> {
  Err(Stop::Internal(msg.into()))
}

/// Run-time values. Generics are erased (spec 5.4: type variables carry no run-time content), so a
/// value never records type arguments; nominal values record their class for dynamic dispatch.
#[derive(Clone)]
enum Value<'a> {
  Unit,
  Int(i32),
  Bool(bool),
  Str(Rc<str>),
  /// Instance of a struct class (4.1.1); tuples are instances of std.tuples classes (5.5).
  Struct(Rc<Instance<'a>>),
  /// Instance of an enum class (4.1.2): `tag` is the variant's position in the declaration.
  Variant(Rc<Instance<'a>>),
  Fun(Rc<Fun<'a>>),
  Vec(Rc<RefCell<Vec<Value<'a>>>>),
  /// A class name used as an expression (6.4).
  Class(ClassKey),
}

struct Instance<'a> {
  class: ClassKey,
  tag: usize,
  fields: Vec<Value<'a>>,
}

/// Dropping a value must not recurse along the data (a list built by a loop can be millions of
/// cells long and the native stack is finite): uniquely owned children are moved to a worklist.
fn dismantle<'a>(v: Value<'a>, work: &mut Vec<Value<'a>>) {
  match v {
    Value::Struct(rc) | Value::Variant(rc) => {
      if let Ok(mut instance) = Rc::try_unwrap(rc) {
        work.append(&mut instance.fields);
      }
    }
    Value::Vec(rc) => {
      if let Ok(cell) = Rc::try_unwrap(rc) {
        work.append(&mut cell.into_inner());
      }
    }
    Value::Fun(rc) => match Rc::try_unwrap(rc) {
      Ok(Fun::Lambda { env, .. }) => {
        let mut next = env.0;
        while let Some(node) = next.take() {
          let Ok(mut node) = Rc::try_unwrap(node) else { break };
          work.push(std::mem::replace(&mut node.value, Value::Unit));
          next = node.next.0.take();
        }
      }
      Ok(Fun::Bound(recv, _)) => work.push(recv),
      _ => {}
    },
    Value::Unit | Value::Int(_) | Value::Bool(_) | Value::Str(_) | Value::Class(_) => {}
  }
}

impl Drop for Instance<'_> {
  fn drop(&mut self) {
    let mut work = std::mem::take(&mut self.fields);
    while let Some(v) = work.pop() {
      dismantle(v, &mut work);
    }
  }
}

impl Drop for EnvNode<'_> {
  fn drop(&mut self) {
    if matches!(self.value, Value::Fun(_) | Value::Vec(_)) {
      let mut work = vec![std::mem::replace(&mut self.value, Value::Unit)];
      while let Some(v) = work.pop() {
        dismantle(v, &mut work);
      }
    }
    let mut next = self.next.0.take();
    while let Some(node) = next.take() {
      let Ok(mut node) = Rc::try_unwrap(node) else { break };
      next = node.next.0.take();
    }
  }
}

enum Fun<'a> {
  Lambda { params: Vec<PStr>, body: &'a Ex, env: Env<'a> },
  /// `Foo.bar` used as a value (also constructors and builtin static functions).
  Static(ClassKey, PStr),
  /// `obj.method` used as a value: receiver is evaluated when the reference is (12.2 item 6).
  Bound(Value<'a>, PStr),
}

/// What a resolved call runs: a user-defined member (with its receiver) or a lambda.
enum Callee<'a> {
  Member(&'a ClassMemberDefinition<Ty>, Option<Value<'a>>),
  Lambda(Rc<Fun<'a>>),
}

/// Result of evaluating an expression in tail position: a value, or a call still to be made.
enum Step<'a> {
  Done(Value<'a>),
  Call(Callee<'a>, Vec<Value<'a>>),
}

/// Persistent environment: a lambda captures it by cloning one pointer (6.12: captured variables
/// are read-only, and all bindings are immutable, so sharing is unobservable).
#[derive(Clone)]
struct Env<'a>(Option<Rc<EnvNode<'a>>>);
struct EnvNode<'a> {
  name: PStr,
  value: Value<'a>,
  next: Env<'a>,
}

impl<'a> Env<'a> {
  fn bind(&self, name: PStr, value: Value<'a>) -> Env<'a> {
    Env(Some(Rc::new(EnvNode { name, value, next: self.clone() })))
  }
  /// Nearest enclosing binding wins (6.2, 6.13.1 rebinding).
  fn lookup(&self, name: PStr) -> Option<&Value<'a>> {
    let mut cur = self;
    while let Some(node) = &cur.0 {
      if node.name == name {
        return Some(&node.value);
      }
      cur = &node.next;
    }
    None
  }
}

/// Multiplicative hasher for the class and member tables (keys are interned ids; SipHash showed
/// up as 12% of the run time).
#[derive(Default, Clone, Copy)]
struct IdHasher(u64);
impl std::hash::Hasher for IdHasher {
  fn finish(&self) -> u64 {
    self.0
  }
  fn write(&mut self, bytes: &[u8]) {
    for chunk in bytes.chunks(8) {
      let mut word = [0u8; 8];
      word[..chunk.len()].copy_from_slice(chunk);
      self.write_u64(u64::from_le_bytes(word));
    }
  }
  fn write_u64(&mut self, x: u64) {
    self.0 = (self.0.rotate_left(5) ^ x).wrapping_mul(0x517c_c1b7_2722_0a95);
  }
  fn write_usize(&mut self, x: usize) {
    self.write_u64(x as u64);
  }
  fn write_u128(&mut self, x: u128) {
    self.write_u64(x as u64);
    self.write_u64((x >> 64) as u64);
  }
}
type IdMap<K, V> = HashMap<K, V, std::hash::BuildHasherDefault<IdHasher>>;

enum ClassKind {
  Plain,
  Struct { n_fields: usize, user_init: bool },
  Enum { variants: Vec<(PStr, usize)> },
}

struct ClassInfo<'a> {
  kind: ClassKind,
  functions: IdMap<PStr, &'a ClassMemberDefinition<Ty>>,
  methods: IdMap<PStr, &'a ClassMemberDefinition<Ty>>,
}

// ------------------------------------------------------------------------------------------------
// The interpreter
// ------------------------------------------------------------------------------------------------

struct Interp<'a> {
  heap: &'a Heap,
  classes: IdMap<ClassKey, ClassInfo<'a>>,
  lines: Vec<String>,
  fuel: u64,
  depth: usize,
  max_depth: usize,
  opts: Options,
  /// Lowest stack address evaluation may reach (the rest is kept for dropping deep values).
  stack_floor: usize,
  /// Observable-effect counters used by the call-order rule: writes (println, Vec mutation) and
  /// reads of mutable state (Vec length/get/eq).
  fx_w: u64,
  fx_r: u64,
  /// $SRCSEM_TRACE: log every user-level call to stderr (diagnosis aid).
  trace: bool,
}

#[inline(never)]
fn stack_pointer() -> usize {
  let marker = 0u8;
  std::hint::black_box(&marker) as *const u8 as usize
}

/// Expressions whose evaluation cannot print, mutate, fail or diverge: evaluating them before or
/// after anything else gives the same run.
fn trivially_pure(e: &Ex) -> bool {
  match e {
    E::Literal(..) | E::LocalId(..) | E::ClassId(..) | E::Lambda(_) => true,
    E::MethodAccess(m) => trivially_pure(&m.object),
    E::FieldAccess(f) => trivially_pure(&f.object),
    E::Tuple(_, l) => l.expressions.iter().all(trivially_pure),
    _ => false,
  }
}

/// Spec 2.2 escape sequences. The parser keeps the literal's text raw except that it already
/// replaced `\"` by `"`, so only the remaining escapes are decoded here.
fn decode_escapes(raw: &str) -> String {
  if !raw.contains('\\') {
    return raw.to_string();
  }
  let mut out = String::with_capacity(raw.len());
  let mut chars = raw.chars();
  while let Some(c) = chars.next() {
    if c != '\\' {
      out.push(c);
      continue;
    }
    match chars.next() {
      Some('t') => out.push('\t'),
      Some('v') => out.push('\u{0B}'),
      Some('0') => out.push('\0'),
      Some('b') => out.push('\u{08}'),
      Some('f') => out.push('\u{0C}'),
      Some('n') => out.push('\n'),
      Some('\\') => out.push('\\'),
      Some('"') => out.push('"'),
      Some(other) => {
        out.push('\\');
        out.push(other)
      }
      None => out.push('\\'),
    }
  }
  out
}

impl<'a> Interp<'a> {
  fn new(
    heap: &'a Heap,
    modules: &'a HashMap<ModuleReference, Module<Ty>>,
    fuel: u64,
    max_depth: usize,
    opts: Options,
  ) -> Self {
    let mut classes = IdMap::default();
    for (mod_ref, module) in modules {
      for toplevel in &module.toplevels {
        let Toplevel::Class(c) = toplevel else { continue };
        let mut functions = IdMap::default();
        let mut methods = IdMap::default();
        for m in &c.members.members {
          if m.decl.is_method {
            methods.insert(m.decl.name.name, m);
          } else {
            functions.insert(m.decl.name.name, m);
          }
        }
        let kind = match &c.type_definition {
          None => ClassKind::Plain,
          Some(TypeDefinition::Struct { fields, .. }) => ClassKind::Struct {
            n_fields: fields.len(),
            user_init: functions.contains_key(&PStr::INIT),
          },
          Some(TypeDefinition::Enum { variants, .. }) => ClassKind::Enum {
            variants: variants
              .iter()
              .map(|v| {
                (v.name.name, v.associated_data_types.as_ref().map_or(0, |l| l.annotations.len()))
              })
              .collect(),
          },
        };
        classes.insert((*mod_ref, c.name.name), ClassInfo { kind, functions, methods });
      }
    }
    // Three quarters of the thread's stack for evaluation, the rest for unwinding and drops.
    let stack_floor = stack_pointer().saturating_sub(opts.stack_bytes / 4 * 3);
    Interp { heap, classes, lines: Vec::new(), fuel, depth: 0, max_depth, opts, stack_floor, fx_w: 0, fx_r: 0, trace: std::env::var("SRCSEM_TRACE").is_ok() }
  }

  fn name(&self, p: PStr) -> String {
    p.as_str(self.heap).to_string()
  }

  fn class_name(&self, k: ClassKey) -> String {
    format!("{}.{}", k.0.pretty_print(self.heap), self.name(k.1))
  }

  fn run_main(&mut self, entry: ModuleReference) -> R<()> {
    let key = (entry, PStr::MAIN_TYPE);
    let main = self.classes.get(&key).and_then(|c| c.functions.get(&PStr::MAIN_FN)).copied();
    match main {
      Some(def) if def.decl.parameters.parameters.is_empty() => {
        self.run_call(Callee::Member(def, None), Vec::new()).map(|_| ())
      }
      _ => internal("entry module has no `class Main { function main(): unit }`"),
    }
  }

  // ---------------------------------------------------------------- calls

  /// Runs a user-defined function, method or lambda to completion.
  ///
  /// A call in tail position of the body (final expression of a block, branch of if/match) is not
  /// nested: it replaces the current activation. The language has no loops (14.2), iteration is
  /// recursion, and spec 13.7 sets no recursion limit, so the oracle must survive loops written as
  /// tail recursion of any length (tests.Benchmark: 20 million iterations). `max_depth` therefore
  /// bounds the nesting of *non-tail* calls; fuel bounds everything else.
  #[inline(never)]
  fn run_call(&mut self, mut callee: Callee<'a>, mut args: Vec<Value<'a>>) -> R<Value<'a>> {
    if self.depth >= self.max_depth {
      return Err(Stop::StackOverflow);
    }
    self.depth += 1;
    let result = loop {
      let (body, env) = match self.activation(callee, args) {
        Ok(x) => x,
        Err(stop) => break Err(stop),
      };
      match self.eval_tail(body, &env) {
        Ok(Step::Done(v)) => break Ok(v),
        Ok(Step::Call(c, a)) => {
          callee = c;
          args = a;
        }
        Err(stop) => break Err(stop),
      }
    };
    self.depth -= 1;
    result
  }

  /// Binds `this` and the parameters (4.5, 6.12): the environment in which the body runs.
  #[inline(never)]
  fn activation(&self, callee: Callee<'a>, args: Vec<Value<'a>>) -> R<(&'a Ex, Env<'a>)> {
    match callee {
      Callee::Member(def, this) => {
        if self.trace {
          eprintln!("#call {} depth={}", self.name(def.decl.name.name), self.depth);
        }
        let params = &def.decl.parameters.parameters;
        if params.len() != args.len() {
          return internal(format!("arity mismatch calling {}", self.name(def.decl.name.name)));
        }
        let mut env = Env(None);
        if let Some(t) = this {
          env = env.bind(PStr::THIS, t);
        }
        for (p, a) in params.iter().zip(args) {
          env = env.bind(p.name.name, a);
        }
        Ok((&def.body, env))
      }
      Callee::Lambda(f) => {
        let Fun::Lambda { params, body, env } = &*f else { return internal("not a lambda") };
        if params.len() != args.len() {
          return internal("arity mismatch calling a lambda");
        }
        let mut env = env.clone();
        for (p, a) in params.iter().zip(args) {
          env = env.bind(*p, a);
        }
        Ok((*body, env))
      }
    }
  }

  #[inline(always)]
  fn finish(&mut self, step: Step<'a>) -> R<Value<'a>> {
    match step {
      Step::Done(v) => Ok(v),
      Step::Call(callee, args) => self.run_call(callee, args),
    }
  }

  /// Calling a function value (6.7.3).
  fn apply(&mut self, f: Value<'a>, args: Vec<Value<'a>>) -> R<Step<'a>> {
    let Value::Fun(f) = f else { return internal("call of a non-function value") };
    match &*f {
      Fun::Lambda { .. } => Ok(Step::Call(Callee::Lambda(f), args)),
      Fun::Static(class, name) => self.invoke_static(*class, *name, args),
      Fun::Bound(recv, name) => self.invoke_method(recv.clone(), *name, args),
    }
  }

  /// `Class.name(args)`: builtin static functions, generated constructors (10.4), user functions.
  fn invoke_static(&mut self, class: ClassKey, name: PStr, args: Vec<Value<'a>>) -> R<Step<'a>> {
    if class.0 == ModuleReference::ROOT {
      return self.builtin_static(class.1, name, args).map(Step::Done);
    }
    let Some(info) = self.classes.get(&class) else {
      return internal(format!("unknown class {}", self.class_name(class)));
    };
    match &info.kind {
      ClassKind::Struct { n_fields, user_init } if name == PStr::INIT => {
        if *user_init {
          return excluded("user-defined-init");
        }
        if *n_fields != args.len() {
          return internal("constructor arity mismatch");
        }
        return Ok(Step::Done(Value::Struct(Rc::new(Instance { class, tag: 0, fields: args }))));
      }
      ClassKind::Enum { variants } => {
        if let Some(tag) = variants.iter().position(|(n, _)| *n == name) {
          if variants[tag].1 != args.len() {
            return internal("variant constructor arity mismatch");
          }
          return Ok(Step::Done(Value::Variant(Rc::new(Instance { class, tag, fields: args }))));
        }
      }
      _ => {}
    }
    match info.functions.get(&name).copied() {
      Some(def) => Ok(Step::Call(Callee::Member(def, None), args)),
      None => {
        internal(format!("no function {} in class {}", self.name(name), self.class_name(class)))
      }
    }
  }

  /// `recv.name(args)`: dynamic dispatch on the receiver's run-time class. This is what makes
  /// interface-typed and bounded-generic receivers (4.2, 5.6) work with erased generics.
  fn invoke_method(&mut self, recv: Value<'a>, name: PStr, args: Vec<Value<'a>>) -> R<Step<'a>> {
    let class = match &recv {
      Value::Struct(o) | Value::Variant(o) => o.class,
      Value::Str(s) => return self.builtin_str_method(s, name, args).map(Step::Done),
      Value::Vec(v) => return self.builtin_vec_method(v, name, args).map(Step::Done),
      Value::Class(class) => return self.invoke_static(*class, name, args),
      _ => return internal(format!("method {} on a value without a class", self.name(name))),
    };
    match self.classes.get(&class).and_then(|c| c.methods.get(&name)).copied() {
      Some(def) => Ok(Step::Call(Callee::Member(def, Some(recv)), args)),
      None => internal(format!("no method {} in class {}", self.name(name), self.class_name(class))),
    }
  }

  #[inline(never)]
  fn eval_args(&mut self, args: &'a [Ex], env: &Env<'a>) -> R<Vec<Value<'a>>> {
    let mut out = Vec::with_capacity(args.len());
    for a in args {
      out.push(self.eval(a, env)?); // 6.7.5: left to right
    }
    Ok(out)
  }

  /// Evaluates the callee-side expression and the arguments of a call.
  ///
  /// Spec 6.7.5: "Arguments are evaluated left-to-right before the callee is invoked. The callee
  /// is evaluated only after all arguments." and 6.15(2): "arguments are evaluated left-to-right,
  /// then the callee is evaluated and invoked". That is the reverse of the textual order (for
  /// `a().m(b())` it runs `b()` before `a()`), so in the default mode the spec order is followed
  /// and the run is Excluded("call-order") whenever the textual order would be distinguishable:
  /// both sides have observable effects, or one side ends the program while the other has effects.
  #[inline(never)]
  fn eval_callee_and_args(
    &mut self,
    callee: &'a Ex,
    args: &'a [Ex],
    env: &Env<'a>,
  ) -> R<(Value<'a>, Vec<Value<'a>>)> {
    match self.opts.call_order {
      CallOrder::CalleeFirst => {
        let f = self.eval(callee, env)?;
        let a = self.eval_args(args, env)?;
        return Ok((f, a));
      }
      CallOrder::ArgsFirst => {
        let a = self.eval_args(args, env)?;
        let f = self.eval(callee, env)?;
        return Ok((f, a));
      }
      CallOrder::Exclude => {}
    }
    if trivially_pure(callee) || args.iter().all(trivially_pure) {
      let a = self.eval_args(args, env)?;
      let f = self.eval(callee, env)?;
      return Ok((f, a));
    }
    const RULE: &str = "call-order";
    let (w0, r0) = (self.fx_w, self.fx_r);
    let args_result = self.eval_args(args, env);
    let (wa, ra) = (self.fx_w - w0, self.fx_r - r0);
    let (w1, r1) = (self.fx_w, self.fx_r);
    match args_result {
      Ok(a) => {
        let f = match self.eval(callee, env) {
          Ok(f) => f,
          // The callee ends the program: textual order would not have shown the arguments' output.
          Err(Stop::Panic(_) | Stop::VecBounds(_)) if wa > 0 => return excluded(RULE),
          Err(stop) => return Err(stop),
        };
        let (wc, rc) = (self.fx_w - w1, self.fx_r - r1);
        if (wc > 0 && (wa > 0 || ra > 0)) || (wa > 0 && rc > 0) {
          return excluded(RULE);
        }
        Ok((f, a))
      }
      Err(stop @ (Stop::Panic(_) | Stop::VecBounds(_))) => {
        // The arguments end the program. Under the textual order the callee would have run first:
        // evaluate it now only to see whether it is silent (its result is discarded).
        let kept_lines = self.lines.len();
        let silent = self.eval(callee, env).is_ok();
        let (wc, rc) = (self.fx_w - w1, self.fx_r - r1);
        self.lines.truncate(kept_lines);
        if silent && wc == 0 && !(wa > 0 && rc > 0) { Err(stop) } else { excluded(RULE) }
      }
      Err(stop) => Err(stop),
    }
  }

  // ---------------------------------------------------------------- builtins (5.10-5.12, 10)

  fn builtin_static(&mut self, class: PStr, name: PStr, mut args: Vec<Value<'a>>) -> R<Value<'a>> {
    let arg0 = if args.is_empty() { None } else { Some(args.swap_remove(0)) };
    let heap = self.heap;
    match (class.as_str(heap), name.as_str(heap), arg0) {
      ("Process", "println", Some(Value::Str(s))) => {
        self.fx_w += 1;
        self.charge_bytes(s.len())?;
        self.lines.push(s.to_string());
        Ok(Value::Unit)
      }
      ("Process", "panic", Some(Value::Str(s))) => Err(Stop::Panic(s.to_string())),
      ("Str", "fromInt", Some(Value::Int(i))) => Ok(Value::Str(i.to_string().into())),
      ("Vec", "empty", None) => Ok(Value::Vec(Rc::new(RefCell::new(Vec::new())))),
      ("Vec", "of", Some(v)) => Ok(Value::Vec(Rc::new(RefCell::new(vec![v])))),
      ("Vec", "withCapacity", Some(Value::Int(n))) => {
        if n < 0 {
          return excluded("vec-negative-capacity");
        }
        // Capacity is never observable here (capacity() is excluded), so nothing is reserved.
        Ok(Value::Vec(Rc::new(RefCell::new(Vec::new()))))
      }
      _ => internal(format!("unsupported builtin {}.{}", self.name(class), self.name(name))),
    }
  }

  fn builtin_str_method(&mut self, s: &Rc<str>, name: PStr, args: Vec<Value<'a>>) -> R<Value<'a>> {
    if name != PStr::TO_INT || !args.is_empty() {
      return internal(format!("unsupported Str method {}", self.name(name)));
    }
    // 10.1: "Behavior on invalid input is implementation-defined". Valid input is taken to be
    // exactly the IntLiteral grammar of 6.1: '-'? ('0' | [1-9][0-9]*), within the 32-bit range.
    let digits = s.strip_prefix('-').unwrap_or(s);
    let well_formed = !digits.is_empty()
      && digits.bytes().all(|b| b.is_ascii_digit())
      && (digits == "0" || !digits.starts_with('0'));
    if !well_formed {
      return excluded("toInt-non-numeral");
    }
    match s.parse::<i32>() {
      Ok(i) => Ok(Value::Int(i)),
      Err(_) => excluded("toInt-out-of-range"),
    }
  }

  fn builtin_vec_method(
    &mut self,
    v: &Rc<RefCell<Vec<Value<'a>>>>,
    name: PStr,
    mut args: Vec<Value<'a>>,
  ) -> R<Value<'a>> {
    let arg1 = if args.len() > 1 { args.pop() } else { None };
    let arg0 = args.pop();
    match (name.as_str(self.heap), arg0, arg1) {
      ("length", None, None) => {
        self.fx_r += 1;
        Ok(Value::Int(v.borrow().len() as i32))
      }
      ("capacity", None, None) => excluded("vec-capacity-advisory"),
      // reserve only affects capacity, which is never observable here.
      ("reserve", Some(Value::Int(_)), None) => Ok(Value::Unit),
      ("push", Some(x), None) => {
        self.fx_w += 1;
        v.borrow_mut().push(x);
        Ok(Value::Unit)
      }
      ("pop", None, None) => {
        self.fx_w += 1;
        match v.borrow_mut().pop() {
          Some(x) => Ok(x),
          None => Err(Stop::VecBounds("pop: empty Vec".to_string())),
        }
      }
      ("get", Some(Value::Int(i)), None) => {
        self.fx_r += 1;
        let vec = v.borrow();
        match usize::try_from(i).ok().and_then(|i| vec.get(i)) {
          Some(x) => Ok(x.clone()),
          None => Err(Stop::VecBounds(format!("get: index {i} length {}", vec.len()))),
        }
      }
      ("set", Some(Value::Int(i)), Some(x)) => {
        self.fx_w += 1;
        let mut vec = v.borrow_mut();
        let len = vec.len();
        match usize::try_from(i).ok().and_then(|i| vec.get_mut(i)) {
          Some(slot) => {
            *slot = x;
            Ok(Value::Unit)
          }
          None => Err(Stop::VecBounds(format!("set: index {i} length {len}"))),
        }
      }
      ("eq", Some(Value::Vec(other)), None) => {
        self.fx_r += 1;
        if Rc::ptr_eq(v, &other) {
          return Ok(Value::Bool(true));
        }
        let (a, b) = (v.borrow(), other.borrow());
        if a.len() != b.len() {
          return Ok(Value::Bool(false));
        }
        for (x, y) in a.iter().zip(b.iter()) {
          if !Self::vec_elements_identical(x, y)? {
            return Ok(Value::Bool(false));
          }
        }
        Ok(Value::Bool(true))
      }
      _ => internal(format!("unsupported Vec method {}", self.name(name))),
    }
  }

  /// 5.12: "Elements are compared by reference identity (`==`-style)"; int elements are
  /// "transparently boxed", so primitives compare by value. Two non-primitive elements are
  /// identical when they are the same allocation; whether separately built ones are is not
  /// something the spec defines, so that case is excluded (except strings with different text).
  fn vec_elements_identical(x: &Value<'a>, y: &Value<'a>) -> R<bool> {
    Ok(match (x, y) {
      (Value::Unit, Value::Unit) => true,
      (Value::Int(a), Value::Int(b)) => a == b,
      (Value::Bool(a), Value::Bool(b)) => a == b,
      (Value::Str(a), Value::Str(b)) if Rc::ptr_eq(a, b) => true,
      (Value::Str(a), Value::Str(b)) if a != b => false,
      (Value::Struct(a), Value::Struct(b)) | (Value::Variant(a), Value::Variant(b))
        if Rc::ptr_eq(a, b) =>
      {
        true
      }
      (Value::Fun(a), Value::Fun(b)) if Rc::ptr_eq(a, b) => true,
      (Value::Vec(a), Value::Vec(b)) if Rc::ptr_eq(a, b) => true,
      _ => return excluded("vec-eq-identity"),
    })
  }

  // ---------------------------------------------------------------- operators (6.8, 6.9)

  fn arith(&self, op: Bop, a: i32, b: i32) -> R<Value<'a>> {
    // Computed in i64; any result outside the 32-bit range is 13.3 "implementation-defined".
    let (a, b) = (a as i64, b as i64);
    let r = match op {
      Bop::MUL => a * b,
      Bop::PLUS => a + b,
      Bop::MINUS => a - b,
      Bop::DIV => {
        if b == 0 {
          return excluded("div-by-zero");
        }
        // 6.9 only says "Integer division". 12.7 names the intended semantics: "WebAssembly's
        // truncating division" (while describing a Math.floor implementation, which is not that).
        // Truncation toward zero is therefore used; with `strict_div` the cases where truncation
        // and floor differ are excluded instead.
        if self.opts.strict_div && a % b != 0 && (a < 0) != (b < 0) {
          return excluded("div-rounding-unspecified");
        }
        a / b // MIN / -1 = 2147483648 is caught by the range check below
      }
      Bop::MOD => {
        if b == 0 {
          return excluded("div-by-zero");
        }
        let r = a % b;
        // "Remainder (mod)": no sign convention is given, so only the cases on which truncated,
        // floored and Euclidean remainders agree are defined.
        // Coordinator decision: the property (C01/C04) excludes only overflow and division/remainder by
        // zero, so `%` is the truncating remainder both targets implement unless SRCSEM_STRICT_REM is set.
        if self.opts.strict_rem && r != 0 && (a < 0 || b < 0) {
          return excluded("rem-sign-unspecified");
        }
        r
      }
      _ => return internal("not an arithmetic operator"),
    };
    match i32::try_from(r) {
      Ok(r) => Ok(Value::Int(r)),
      Err(_) => excluded("overflow"),
    }
  }

  /// `==` (6.9: "structural ... all components are recursively equal"). int, bool, unit compare by
  /// value and Str by its characters. For class instances, Vecs and functions the spec contradicts
  /// itself: 6.9 says structural, 5.12 says the language's default for boxed values is reference
  /// identity (and std/map.sam relies on `l == ll` being a cheap identity test). Both readings agree
  /// when the operands are the very same object (true) and when they differ structurally (false);
  /// only when they are separately built but structurally equal (or contain distinct function
  /// values, whose structure is not comparable) is the run excluded.
  fn equal(a: &Value<'a>, b: &Value<'a>) -> R<bool> {
    match (a, b) {
      (Value::Int(x), Value::Int(y)) => return Ok(x == y),
      (Value::Bool(x), Value::Bool(y)) => return Ok(x == y),
      (Value::Str(x), Value::Str(y)) => return Ok(x == y),
      _ => {}
    }
    let mut readings_disagree = false;
    let mut work = vec![(a.clone(), b.clone())]; // explicit stack: values can be very deep lists
    while let Some((x, y)) = work.pop() {
      match (&x, &y) {
        (Value::Unit, Value::Unit) => {}
        (Value::Int(x), Value::Int(y)) if x == y => {}
        (Value::Bool(x), Value::Bool(y)) if x == y => {}
        (Value::Str(x), Value::Str(y)) if x == y => {}
        (Value::Int(_), Value::Int(_))
        | (Value::Bool(_), Value::Bool(_))
        | (Value::Str(_), Value::Str(_)) => return Ok(false),
        (Value::Struct(x), Value::Struct(y)) | (Value::Variant(x), Value::Variant(y)) => {
          if Rc::ptr_eq(x, y) {
            continue;
          }
          if x.class != y.class || x.tag != y.tag || x.fields.len() != y.fields.len() {
            return Ok(false);
          }
          readings_disagree = true; // unless a component differs
          work.extend(x.fields.iter().cloned().zip(y.fields.iter().cloned()));
        }
        (Value::Vec(x), Value::Vec(y)) => {
          if Rc::ptr_eq(x, y) {
            continue;
          }
          let (x, y) = (x.borrow(), y.borrow());
          if x.len() != y.len() {
            return Ok(false);
          }
          readings_disagree = true;
          work.extend(x.iter().cloned().zip(y.iter().cloned()));
        }
        (Value::Fun(x), Value::Fun(y)) => {
          if !Rc::ptr_eq(x, y) {
            readings_disagree = true;
          }
        }
        (Value::Class(x), Value::Class(y)) => {
          if x != y {
            return Ok(false);
          }
        }
        _ => return internal("== on values of different kinds"),
      }
    }
    if readings_disagree { excluded("eq-on-objects") } else { Ok(true) }
  }

  #[inline(never)]
  fn eval_binary(&mut self, b: &'a expr::Binary<Ty>, env: &Env<'a>) -> R<Value<'a>> {
    let v1 = self.eval(&b.e1, env)?; // 6.15(3): left operand first
    match (b.operator, &v1) {
      // 6.15(4): short circuit
      (Bop::AND, Value::Bool(false)) => return Ok(Value::Bool(false)),
      (Bop::OR, Value::Bool(true)) => return Ok(Value::Bool(true)),
      _ => {}
    }
    let v2 = self.eval(&b.e2, env)?;
    match (b.operator, v1, v2) {
      (Bop::AND | Bop::OR, Value::Bool(_), Value::Bool(y)) => Ok(Value::Bool(y)),
      (op @ (Bop::MUL | Bop::DIV | Bop::MOD | Bop::PLUS | Bop::MINUS), Value::Int(x), Value::Int(y)) => {
        self.arith(op, x, y)
      }
      (Bop::LT, Value::Int(x), Value::Int(y)) => Ok(Value::Bool(x < y)),
      (Bop::LE, Value::Int(x), Value::Int(y)) => Ok(Value::Bool(x <= y)),
      (Bop::GT, Value::Int(x), Value::Int(y)) => Ok(Value::Bool(x > y)),
      (Bop::GE, Value::Int(x), Value::Int(y)) => Ok(Value::Bool(x >= y)),
      (Bop::EQ, x, y) => Ok(Value::Bool(Self::equal(&x, &y)?)),
      (Bop::NE, x, y) => Ok(Value::Bool(!Self::equal(&x, &y)?)),
      (Bop::CONCAT, Value::Str(x), Value::Str(y)) => {
        self.charge_bytes(x.len() + y.len())?;
        let mut s = String::with_capacity(x.len() + y.len());
        s.push_str(&x);
        s.push_str(&y);
        Ok(Value::Str(s.into()))
      }
      (op, _, _) => internal(format!("ill-typed operands for {op}")),
    }
  }

  // ---------------------------------------------------------------- patterns (8)

  /// Matches `v` against `p`, extending `env` with the bindings. On failure `env` may hold partial
  /// bindings; callers match on a copy.
  fn matches(&self, p: &'a MatchingPattern<Ty>, v: &Value<'a>, env: &mut Env<'a>) -> R<bool> {
    match p {
      MatchingPattern::Wildcard { .. } => Ok(true),
      MatchingPattern::Id(id, _) => {
        *env = env.bind(id.name, v.clone());
        Ok(true)
      }
      MatchingPattern::Tuple(t) => match v {
        Value::Struct(o) => self.matches_positional(t, &o.fields, env),
        _ => internal("tuple pattern on a non-struct value"),
      },
      MatchingPattern::Object { elements, .. } => {
        let Value::Struct(o) = v else { return internal("struct pattern on a non-struct value") };
        for el in elements {
          // 8.5: fields are matched by name; the checker resolved the name to its position.
          let Some(field) = o.fields.get(el.field_order) else {
            return internal("struct pattern field out of range");
          };
          if !self.matches(&el.pattern, field, env)? {
            return Ok(false);
          }
        }
        Ok(true)
      }
      MatchingPattern::Variant(vp) => {
        let Value::Variant(o) = v else { return internal("variant pattern on a non-enum value") };
        if o.tag != vp.tag_order {
          return Ok(false);
        }
        match &vp.data_variables {
          None => Ok(true),
          Some(t) => self.matches_positional(t, &o.fields, env),
        }
      }
      MatchingPattern::Or { patterns, .. } => {
        // 8.9: "The first matching alternative determines the runtime bindings".
        for alt in patterns {
          let mut attempt = env.clone();
          if self.matches(alt, v, &mut attempt)? {
            *env = attempt;
            return Ok(true);
          }
        }
        Ok(false)
      }
    }
  }

  fn matches_positional(
    &self,
    t: &'a TuplePattern<Ty>,
    fields: &[Value<'a>],
    env: &mut Env<'a>,
  ) -> R<bool> {
    if t.elements.len() != fields.len() {
      return internal("pattern arity differs from the value's");
    }
    for (el, field) in t.elements.iter().zip(fields) {
      if !self.matches(&el.pattern, field, env)? {
        return Ok(false);
      }
    }
    Ok(true)
  }

  // ---------------------------------------------------------------- expressions (6, 7)

  #[inline(never)]
  fn eval_block(&mut self, b: &'a expr::Block<Ty>, env: &Env<'a>) -> R<Step<'a>> {
    // 6.13: a block opens a scope; statements in order; value of the final expression or unit.
    let mut env = env.clone();
    for s in &b.statements {
      match s {
        expr::Statement::Expression(e) => {
          self.eval(e, &env)?; // 7.2: value discarded
        }
        expr::Statement::Declaration(d) => {
          let v = self.eval(&d.assigned_expression, &env)?; // 6.13.1: rhs sees the old binding
          let mut extended = env.clone();
          if !self.matches(&d.pattern, &v, &mut extended)? {
            // The checker demands irrefutable `let` patterns, so this is its unsoundness.
            return internal("let-pattern-mismatch: an accepted `let` pattern did not match");
          }
          env = extended;
        }
      }
    }
    match &b.expression {
      Some(e) => self.eval_tail(e, &env),
      None => Ok(Step::Done(Value::Unit)),
    }
  }

  #[inline(never)]
  fn eval_if_else(&mut self, mut ie: &'a expr::IfElse<Ty>, env: &Env<'a>) -> R<Step<'a>> {
    loop {
      // 6.15(6): condition first, then only the selected branch.
      let mut branch_env = env.clone();
      let taken = match ie.condition.as_ref() {
        expr::IfElseCondition::Expression(c) => match self.eval(c, env)? {
          Value::Bool(b) => b,
          _ => return internal("if condition is not a bool"),
        },
        // 6.10.2: bindings are in scope in the first branch only.
        expr::IfElseCondition::Guard(p, c) => {
          let v = self.eval(c, env)?;
          self.matches(p, &v, &mut branch_env)?
        }
      };
      if taken {
        return self.eval_block(&ie.e1, &branch_env);
      }
      match ie.e2.as_ref() {
        expr::IfElseOrBlock::Block(b) => return self.eval_block(b, env),
        // 6.10.3: `else if` chain
        expr::IfElseOrBlock::IfElse(nested) => {
          self.tick()?;
          ie = nested;
        }
      }
    }
  }

  #[inline(never)]
  fn eval_match(&mut self, m: &'a expr::Match<Ty>, env: &Env<'a>) -> R<Step<'a>> {
    let v = self.eval(&m.matched, env)?;
    for case in &m.cases {
      // Arms are tried in source order; the first arm whose pattern matches is selected.
      let mut arm_env = env.clone();
      if self.matches(&case.pattern, &v, &mut arm_env)? {
        drop(v);
        return self.eval_tail(&case.body, &arm_env);
      }
    }
    // 6.11 requires exhaustiveness, so this is a checker unsoundness, not a language behaviour.
    internal("match-fallthrough: no arm of an accepted match expression matched")
  }

  #[inline(never)]
  fn eval_call(&mut self, c: &'a expr::Call<Ty>, env: &Env<'a>) -> R<Step<'a>> {
    let args = &c.arguments.expressions[..];
    match c.callee.as_ref() {
      // `Class.f(args)`: nothing to evaluate on the callee side.
      E::MethodAccess(m) if matches!(m.object.as_ref(), E::ClassId(..)) => {
        let E::ClassId(_, mod_ref, id) = m.object.as_ref() else { unreachable!() };
        let a = self.eval_args(args, env)?;
        self.invoke_static((*mod_ref, id.name), m.method_name.name, a)
      }
      // `recv.m(args)`: the callee-side expression is the receiver.
      E::MethodAccess(m) => {
        let (recv, a) = self.eval_callee_and_args(&m.object, args, env)?;
        self.invoke_method(recv, m.method_name.name, a)
      }
      callee => {
        let (f, a) = self.eval_callee_and_args(callee, args, env)?;
        self.apply(f, a)
      }
    }
  }

  /// Strings are the one thing that can grow faster than fuel is spent (`s :: s` in a loop), so
  /// building or printing a string also costs one unit of fuel per 8 bytes, and no single string
  /// may exceed 64 MiB (reported as OutOfFuel: the oracle's resources, not the language's).
  fn charge_bytes(&mut self, bytes: usize) -> R<()> {
    let cost = (bytes / 8) as u64;
    if self.fuel < cost || bytes > (64 << 20) {
      self.fuel = 0;
      return Err(Stop::OutOfFuel);
    }
    self.fuel -= cost;
    Ok(())
  }

  fn tick(&mut self) -> R<()> {
    if self.fuel == 0 {
      return Err(Stop::OutOfFuel);
    }
    self.fuel -= 1;
    Ok(())
  }

  /// Evaluates `e` to a value.
  fn eval(&mut self, e: &'a Ex, env: &Env<'a>) -> R<Value<'a>> {
    let step = self.eval_tail(e, env)?;
    self.finish(step)
  }

  /// Evaluates `e`, except that a user-level call that is the last thing `e` does is returned
  /// unperformed (see `run_call`). One unit of fuel per expression node (see also `charge_bytes`).
  fn eval_tail(&mut self, e: &'a Ex, env: &Env<'a>) -> R<Step<'a>> {
    self.tick()?;
    if stack_pointer() < self.stack_floor {
      return Err(Stop::StackOverflow);
    }
    match e {
      E::Call(c) => self.eval_call(c, env),
      E::IfElse(ie) => self.eval_if_else(ie, env),
      E::Match(m) => self.eval_match(m, env),
      E::Block(b) => self.eval_block(b, env),
      E::Binary(b) => self.eval_binary(b, env).map(Step::Done),
      _ => self.eval_simple(e, env).map(Step::Done),
    }
  }

  /// The expression forms that contain no tail position. Kept out of `eval_tail` so that the
  /// frames of the recursive evaluation cycle stay small.
  #[inline(never)]
  fn eval_simple(&mut self, e: &'a Ex, env: &Env<'a>) -> R<Value<'a>> {
    let value = match e {
      E::Literal(_, Literal::Int(i)) => Value::Int(*i),
      E::Literal(_, Literal::Bool(b)) => Value::Bool(*b),
      E::Literal(_, Literal::String(s)) => Value::Str(decode_escapes(s.as_str(self.heap)).into()),
      // 6.2 / 6.3: `this` is an ordinary binding made by the method call.
      E::LocalId(_, id) => match env.lookup(id.name) {
        Some(v) => v.clone(),
        None => return internal(format!("unbound variable {}", self.name(id.name))),
      },
      E::ClassId(_, mod_ref, id) => Value::Class((*mod_ref, id.name)),
      E::Tuple(common, list) => {
        // 5.5: a tuple is an instance of std.tuples.Pair/Triple/TupleN ("desugared"), i.e.
        // `Pair.init(e0, e1)`; its elements are therefore evaluated left to right like arguments.
        let fields = self.eval_args(&list.expressions, env)?;
        match common.type_.as_nominal() {
          Some(n) => {
            Value::Struct(Rc::new(Instance { class: (n.module_reference, n.id), tag: 0, fields }))
          }
          None => return internal("tuple expression without a nominal type"),
        }
      }
      E::FieldAccess(f) => match self.eval(&f.object, env)? {
        Value::Struct(o) => match usize::try_from(f.field_order).ok().and_then(|i| o.fields.get(i)) {
          Some(v) => v.clone(),
          None => return internal("field index out of range"),
        },
        _ => return internal("field access on a non-struct value"),
      },
      // A function or method used as a value (5.3 "function references, method references").
      E::MethodAccess(m) => Value::Fun(Rc::new(match self.eval(&m.object, env)? {
        Value::Class(class) => Fun::Static(class, m.method_name.name),
        recv => Fun::Bound(recv, m.method_name.name),
      })),
      E::Unary(u) => match (u.operator, self.eval(&u.argument, env)?) {
        (UnaryOperator::NOT, Value::Bool(b)) => Value::Bool(!b),
        (UnaryOperator::NEG, Value::Int(i)) => self.arith(Bop::MINUS, 0, i)?,
        _ => return internal("ill-typed unary operand"),
      },
      E::Call(_) | E::IfElse(_) | E::Match(_) | E::Block(_) | E::Binary(_) => {
        return internal("eval_simple on a compound expression");
      }
      E::Lambda(l) => Value::Fun(Rc::new(Fun::Lambda {
        params: l.parameters.parameters.iter().map(|p| p.name.name).collect(),
        body: &l.body,
        env: env.clone(),
      })),
    };
    Ok(value)
  }
}

// ------------------------------------------------------------------------------------------------
// CLI
// ------------------------------------------------------------------------------------------------

fn ending_kind_detail(e: &Ending) -> (&'static str, String) {
  match e {
    Ending::Return => ("return", String::new()),
    Ending::Panic(m) => ("panic", m.clone()),
    Ending::Excluded(m) => ("excluded", m.clone()),
    Ending::OutOfFuel => ("out-of-fuel", String::new()),
    Ending::StackOverflow => ("stack-overflow", String::new()),
    Ending::VecBounds(m) => ("vec-bounds", m.clone()),
    Ending::Rejected(ms) => ("rejected", ms.join("\n")),
    Ending::InterpreterError(m) => ("interpreter-error", m.clone()),
  }
}

fn collect_sam_files(dir: &std::path::Path, prefix: &str, out: &mut Vec<(String, String)>) {
  let Ok(rd) = std::fs::read_dir(dir) else { return };
  let mut entries: Vec<_> = rd.flatten().map(|e| e.path()).collect();
  entries.sort();
  for path in entries {
    let stem = path.file_stem().and_then(|s| s.to_str()).unwrap_or("").to_string();
    if path.is_dir() {
      collect_sam_files(&path, &format!("{prefix}{stem}."), out);
    } else if path.extension().and_then(|s| s.to_str()) == Some("sam")
      && let Ok(text) = std::fs::read_to_string(&path)
    {
      out.push((format!("{prefix}{stem}"), text));
    }
  }
}

fn usage() -> ! {
  eprintln!(
    "usage: vh src-run <dir | file.sam | mod.name=file.sam>... --entry <module> [--fuel N] [--max-depth N]\n\
     \x20      vh src-run --json <file.json>   ({{\"sources\": {{name: text}}, \"entry\": name, \"fuel\": N, \"max_depth\": N}})\n\
     \x20      vh src-run --rules\n\
     a directory D contributes modules <basename D>.<relative path>; a plain file contributes module <file stem>.\n\
     env: SRCSEM_CALL_ORDER=args-first|callee-first  SRCSEM_STRICT_DIV=1  SRCSEM_STACK_MB=N  SAMLANG_STD_DIR=dir"
  );
  std::process::exit(2)
}

const DEFAULT_FUEL: u64 = 2_000_000_000;
const DEFAULT_MAX_DEPTH: usize = 100_000;

/// `vh src-run ...`: prints the program's lines then `#ending: <kind>[ <detail>]`; with `--json`
/// reads the request from a file and prints one JSON object.
pub fn main(args: &[String]) {
  let mut sources: Vec<(String, String)> = Vec::new();
  let (mut entry, mut fuel, mut max_depth) = (None, DEFAULT_FUEL, DEFAULT_MAX_DEPTH);
  let mut json_mode = false;
  let mut it = args.iter();
  while let Some(arg) = it.next() {
    match arg.as_str() {
      "--rules" => {
        for (rule, why) in EXCLUDED_RULES {
          println!("{rule}\t{why}");
        }
        return;
      }
      "--entry" => entry = Some(it.next().cloned().unwrap_or_else(|| usage())),
      "--fuel" => fuel = it.next().and_then(|s| s.parse().ok()).unwrap_or_else(|| usage()),
      "--max-depth" => max_depth = it.next().and_then(|s| s.parse().ok()).unwrap_or_else(|| usage()),
      "--json" => {
        json_mode = true;
        let path = it.next().unwrap_or_else(|| usage());
        let request: serde_json::Value = match std::fs::read_to_string(path)
          .map_err(|e| e.to_string())
          .and_then(|t| serde_json::from_str(&t).map_err(|e| e.to_string()))
        {
          Ok(v) => v,
          Err(e) => {
            eprintln!("src-run: cannot read {path}: {e}");
            std::process::exit(2)
          }
        };
        if let Some(map) = request.get("sources").and_then(|s| s.as_object()) {
          for (name, text) in map {
            sources.push((name.clone(), text.as_str().unwrap_or("").to_string()));
          }
        }
        if let Some(e) = request.get("entry").and_then(|e| e.as_str()) {
          entry = Some(e.to_string());
        }
        if let Some(n) = request.get("fuel").and_then(|n| n.as_u64()) {
          fuel = n;
        }
        if let Some(n) = request.get("max_depth").and_then(|n| n.as_u64()) {
          max_depth = n as usize;
        }
      }
      other => {
        if let Some((name, path)) = other.split_once('=') {
          match std::fs::read_to_string(path) {
            Ok(text) => sources.push((name.to_string(), text)),
            Err(e) => {
              eprintln!("src-run: cannot read {path}: {e}");
              std::process::exit(2)
            }
          }
          continue;
        }
        let path = std::path::Path::new(other);
        let stem = path.file_stem().and_then(|s| s.to_str()).unwrap_or("").to_string();
        if path.is_dir() {
          collect_sam_files(path, &format!("{stem}."), &mut sources);
        } else {
          match std::fs::read_to_string(path) {
            Ok(text) => sources.push((stem, text)),
            Err(e) => {
              eprintln!("src-run: cannot read {other}: {e}");
              std::process::exit(2)
            }
          }
        }
      }
    }
  }
  let Some(entry) = entry else { usage() };
  let outcome = run_program(&sources, &entry, fuel, max_depth);
  let (kind, detail) = ending_kind_detail(&outcome.ending);
  use std::io::Write;
  let stdout = std::io::stdout();
  let mut out = std::io::BufWriter::new(stdout.lock());
  if json_mode {
    let mut ending = serde_json::json!({ "kind": kind, "detail": detail });
    if let Ending::Rejected(ms) = &outcome.ending {
      ending["messages"] = serde_json::json!(ms);
    }
    let _ = writeln!(out, "{}", serde_json::json!({ "lines": outcome.lines, "ending": ending }));
  } else {
    for line in &outcome.lines {
      let _ = writeln!(out, "{line}");
    }
    let _ = if detail.is_empty() {
      writeln!(out, "#ending: {kind}")
    } else {
      writeln!(out, "#ending: {kind} {detail}")
    };
  }
  let _ = out.flush();
}

#[cfg(test)]
mod tests {
  use super::*;

  fn run(body: &str) -> Outcome {
    let text = format!(
      "class A(val x: int) {{ method add(o: A): A = A.init(this.x + o.x) }}\n\
       class K {{ function mk(i: int): A = {{ Process.println(Str.fromInt(i)); A.init(i) }} }}\n\
       class Main {{ function main(): unit = {{ {body} }} }}"
    );
    run_program(&[("T".to_string(), text)], "T", 1_000_000, 1_000)
  }

  /// Acceptance test: tests.AllTests prints exactly /repo/tests/snapshot.txt.
  #[test]
  fn all_tests_match_snapshot() {
    let mut sources = Vec::new();
    collect_sam_files(std::path::Path::new("/repo/tests"), "tests.", &mut sources);
    let outcome = run_program(&sources, "tests.AllTests", u64::MAX, 100_000);
    assert_eq!(outcome.ending, Ending::Return);
    let printed: String = outcome.lines.iter().map(|l| format!("{l}\n")).collect();
    assert!(printed == std::fs::read_to_string("/repo/tests/snapshot.txt").unwrap());
  }

  #[test]
  fn endings() {
    let excluded = |rule: &str| Ending::Excluded(rule.to_string());
    assert_eq!(run("Process.println(Str.fromInt(2147483647 + 1))").ending, excluded("overflow"));
    assert_eq!(run("let m = -2147483648; Process.println(Str.fromInt(m / -1))").ending, excluded("overflow"));
    assert_eq!(run("Process.println(Str.fromInt(1 % 0))").ending, excluded("div-by-zero"));
    assert_eq!(run("Process.println(Str.fromInt(-7 % 2))").lines, vec!["-1".to_string()]);
    assert_eq!(run("Process.println(Str.fromInt(\"1x\".toInt()))").ending, excluded("toInt-non-numeral"));
    assert_eq!(run("Process.println(if A.init(1) == A.init(1) { \"t\" } else { \"f\" })").ending, excluded("eq-on-objects"));
    assert_eq!(run("Process.println(Str.fromInt(K.mk(1).add(K.mk(2)).x))").ending, excluded("call-order"));
    assert_eq!(run("let v = Vec.empty<int>(); let _ = v.pop();").ending, Ending::VecBounds("pop: empty Vec".to_string()));
    assert_eq!(run("Process.println(\"a\"); Process.panic<unit>(\"b\")"), Outcome { lines: vec!["a".to_string()], ending: Ending::Panic("b".to_string()) });
    assert_eq!(run("Process.println(Str.fromInt(-7 / 2))").lines, vec!["-3".to_string()]);
    assert!(matches!(run("let x: int = true;").ending, Ending::Rejected(_)));
  }
}
