//! T-std: translate /repo/std/*.sam (parsed by the real samlang parser) to Gallina. See DESIGN.md 3.3 / C18.
pub fn main(_args: &[String]) {
  eprintln!("std-dump: not built yet");
  std::process::exit(2);
}
