//! C03/C06/C13 correspondence: the crate-private type-system kernel of samlang-checker
//! (`type_system.rs`: contains_placeholder, assignability_check, type_meet, subst_type,
//! solve_multiple_type_constrains) reached through `samlang_checker::verif` on given inputs.
//!
//! stdin: JSON array of cases
//!   {"k": "assign"|"meet", "l": T, "u": T}
//!   {"k": "placeholder", "l": T}
//!   {"k": "subst", "l": T, "s": {name: T, ...}}
//!   {"k": "solve", "l": T (concrete), "u": T (generic), "params": [name, ...]}
//! types T:  ["any", R, placeholder] | ["prim", R, "unit"|"bool"|"int"] | ["nom", R, statics, "Mod", "Id", [T...]]
//!         | ["gen", R, "Name"] | ["fn", R, [T...], T]
//! reasons R: n            use_loc = Location::from_pos(n, 0, n, 1), def_loc = None
//!          | [n, d]       the same with def_loc = Some(Location::from_pos(d, 0, d, 1))
//! stdout: JSON array, one result per case:
//!   assign/placeholder: bool;  meet: T | "none";  subst: T;  solve: [[name, T], ...] sorted by name;  or "panic".
use samlang_ast::{Location, Reason};
use samlang_checker::type_::{FunctionType, NominalType, PrimitiveTypeKind, Type};
use samlang_heap::{Heap, PStr};
use serde_json::{Value, json};
use std::collections::HashMap;
use std::io::Read;
use std::panic::{AssertUnwindSafe, catch_unwind};
use std::sync::Arc;

fn loc_of(id: u64) -> Location {
  let id = id as u32;
  Location::from_pos(id, 0, id, 1)
}

fn reason_of(v: &Value) -> Reason {
  match v {
    Value::Array(a) => Reason::new(loc_of(a[0].as_u64().unwrap()), Some(loc_of(a[1].as_u64().unwrap()))),
    _ => Reason::new(loc_of(v.as_u64().unwrap()), None),
  }
}

fn reason_json(r: &Reason) -> Value {
  match r.def_loc {
    Some(d) => json!([r.use_loc.start.0, d.start.0]),
    None => json!(r.use_loc.start.0),
  }
}

fn types_of(heap: &mut Heap, v: &Value) -> Vec<Arc<Type>> {
  v.as_array().unwrap().iter().map(|t| Arc::new(type_of(heap, t))).collect()
}

fn type_of(heap: &mut Heap, v: &Value) -> Type {
  let reason = reason_of(&v[1]);
  match v[0].as_str().unwrap() {
    "any" => Type::Any(reason, v[2].as_bool().unwrap()),
    "prim" => Type::Primitive(
      reason,
      match v[2].as_str().unwrap() {
        "unit" => PrimitiveTypeKind::Unit,
        "bool" => PrimitiveTypeKind::Bool,
        "int" => PrimitiveTypeKind::Int,
        other => panic!("bad primitive {other}"),
      },
    ),
    "nom" => {
      let module_reference = heap.alloc_module_reference_from_string_vec(
        v[3].as_str().unwrap().split('.').map(|s| s.to_string()).collect(),
      );
      let id = heap.alloc_string(v[4].as_str().unwrap().to_string());
      Type::Nominal(NominalType {
        reason,
        is_class_statics: v[2].as_bool().unwrap(),
        module_reference,
        id,
        type_arguments: types_of(heap, &v[5]),
      })
    }
    "gen" => Type::Generic(reason, heap.alloc_string(v[2].as_str().unwrap().to_string())),
    "fn" => Type::Fn(FunctionType {
      reason,
      argument_types: types_of(heap, &v[2]),
      return_type: Arc::new(type_of(heap, &v[3])),
    }),
    other => panic!("bad type tag {other}"),
  }
}

fn type_json(heap: &Heap, t: &Type) -> Value {
  match t {
    Type::Any(r, p) => json!(["any", reason_json(r), p]),
    Type::Primitive(r, k) => json!([
      "prim",
      reason_json(r),
      match k {
        PrimitiveTypeKind::Unit => "unit",
        PrimitiveTypeKind::Bool => "bool",
        PrimitiveTypeKind::Int => "int",
      }
    ]),
    Type::Nominal(n) => json!([
      "nom",
      reason_json(&n.reason),
      n.is_class_statics,
      n.module_reference.pretty_print(heap),
      n.id.as_str(heap),
      n.type_arguments.iter().map(|a| type_json(heap, a)).collect::<Vec<_>>()
    ]),
    Type::Generic(r, n) => json!(["gen", reason_json(r), n.as_str(heap)]),
    Type::Fn(f) => json!([
      "fn",
      reason_json(&f.reason),
      f.argument_types.iter().map(|a| type_json(heap, a)).collect::<Vec<_>>(),
      type_json(heap, &f.return_type)
    ]),
  }
}

fn run_case(heap: &mut Heap, c: &Value) -> Value {
  use samlang_checker::verif as k;
  match c["k"].as_str().unwrap() {
    "assign" => {
      let (l, u) = (type_of(heap, &c["l"]), type_of(heap, &c["u"]));
      json!(k::assignable(&l, &u))
    }
    "placeholder" => {
      let l = type_of(heap, &c["l"]);
      json!(k::contains_placeholder(&l))
    }
    "meet" => {
      let (l, u) = (type_of(heap, &c["l"]), type_of(heap, &c["u"]));
      match k::type_meet(&l, &u) {
        Some(t) => type_json(heap, &t),
        None => json!("none"),
      }
    }
    "subst" => {
      let l = type_of(heap, &c["l"]);
      let mut mapping: HashMap<PStr, Arc<Type>> = HashMap::new();
      for (name, t) in c["s"].as_object().unwrap() {
        let key = heap.alloc_string(name.clone());
        let t = type_of(heap, t);
        mapping.insert(key, Arc::new(t));
      }
      type_json(heap, &k::subst_type(&l, &mapping))
    }
    "solve" => {
      let (concrete, generic) = (type_of(heap, &c["l"]), type_of(heap, &c["u"]));
      let params: Vec<PStr> = c["params"]
        .as_array()
        .unwrap()
        .iter()
        .map(|n| heap.alloc_string(n.as_str().unwrap().to_string()))
        .collect();
      let solved = k::solve_type_constraint(&concrete, &generic, &params);
      let mut entries: Vec<(String, Value)> =
        solved.iter().map(|(n, t)| (n.as_str(heap).to_string(), type_json(heap, t))).collect();
      entries.sort_by(|a, b| a.0.cmp(&b.0));
      Value::Array(entries.into_iter().map(|(n, t)| json!([n, t])).collect())
    }
    other => panic!("bad case kind {other}"),
  }
}

pub fn main(_args: &[String]) {
  let mut text = String::new();
  std::io::stdin().read_to_string(&mut text).unwrap();
  let cases: Vec<Value> = serde_json::from_str(&text).unwrap();
  let mut heap = Heap::new();
  let mut out = Vec::with_capacity(cases.len());
  for c in &cases {
    match catch_unwind(AssertUnwindSafe(|| run_case(&mut heap, c))) {
      Ok(v) => out.push(v),
      Err(_) => out.push(json!("panic")),
    }
  }
  println!("{}", Value::Array(out));
}
