//! C03: validate emitted WebAssembly with wasmparser (all proposals the module uses, incl. GC).
//! usage: vh wasm-validate <file.wasm>...   -> one JSON line per file {"file", "valid": bool, "error": "..."}
use serde_json::json;
use std::panic::{AssertUnwindSafe, catch_unwind};

pub fn main(args: &[String]) {
  for f in args {
    let r = catch_unwind(AssertUnwindSafe(|| {
      let bytes = std::fs::read(f).map_err(|e| format!("read: {e}"))?;
      let mut v = wasmparser::Validator::new_with_features(wasmparser::WasmFeatures::all());
      v.validate_all(&bytes).map(|_| ()).map_err(|e| format!("{e}"))
    }));
    let out = match r {
      Ok(Ok(())) => json!({"file": f, "valid": true}),
      Ok(Err(e)) => json!({"file": f, "valid": false, "error": e}),
      Err(_) => json!({"file": f, "valid": false, "error": "validator panicked"}),
    };
    println!("{out}");
  }
}
