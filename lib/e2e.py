"""End-to-end pipeline shared by C01 / C03 / C04 (and C02's wasm comparison, C12, C13):
compile with the real compiler, run the reference interpreter of the source language (vh src-run),
the emitted WebAssembly in headless Chrome and the emitted TypeScript (type-erased) in node."""
import concurrent.futures
import json
import os
import shutil
import subprocess

from lib.front import run_jobs
from lib.vlib import ROOT, WORK, build_harness, sh

ENG = os.path.join(ROOT, 'engines')


def _src_run(binp, prog, fuel, idx, tag):
    req = os.path.join(WORK, 'e2e_%s' % tag, 'req_%d.json' % idx)
    with open(req, 'w') as f:
        json.dump({'sources': prog['sources'], 'entry': prog['entry'], 'fuel': fuel, 'max_depth': 20000}, f)
    try:
        p = subprocess.run([binp, 'src-run', '--json', req], stdout=subprocess.PIPE, stderr=subprocess.PIPE, timeout=120, text=True)
        line = [l for l in p.stdout.splitlines() if l.startswith('{')]
        return json.loads(line[-1]) if line else {'lines': [], 'ending': {'kind': 'interpreter-error', 'detail': (p.stderr or p.stdout)[-300:]}}
    except subprocess.TimeoutExpired:
        return {'lines': [], 'ending': {'kind': 'out-of-fuel', 'detail': 'wall-clock'}}


def _ts_run(path, timeout_ms):
    try:
        p = subprocess.run(['node', '--stack-size=4000', os.path.join(ENG, 'run_ts.js'), path, str(timeout_ms)],
                           stdout=subprocess.PIPE, stderr=subprocess.PIPE, timeout=timeout_ms / 1000 + 20, text=True)
        line = [l for l in p.stdout.splitlines() if l.startswith('{')]
        if line:
            return json.loads(line[-1])
        return {'lines': [], 'ending': {'kind': 'runner-error', 'detail': (p.stderr or '')[-300:]}}
    except subprocess.TimeoutExpired:
        return {'lines': [], 'ending': {'kind': 'timeout', 'detail': ''}}


def run_pipeline(progs, tag, want_src=True, want_wasm=True, want_ts=True, profile='debug', fuel=30000000, timeout_ms=10000):
    """progs: list of {'sources': {mod: text}, 'entry': mod}. Returns list of records:
    {'compile': 'ok'|'rejected'|'panic: ..', 'errors': [...], 'src': outcome, 'wasm': outcome, 'ts': outcome, 'dir': path}"""
    base = os.path.join(WORK, 'e2e_%s' % tag)
    shutil.rmtree(base, ignore_errors=True)
    os.makedirs(base, exist_ok=True)
    jobs = [{'id': i, 'sources': p['sources'], 'entries': [p['entry']], 'compile': True, 'out_dir': os.path.join(base, 'p%d' % i)}
            for i, p in enumerate(progs)]
    # compile in parallel chunks
    chunks = [jobs[i::8] for i in range(8)]
    recs = [None] * len(progs)
    with concurrent.futures.ThreadPoolExecutor(max_workers=8) as ex:
        for part in ex.map(lambda c: run_jobs(c, profile=profile) if c else [], chunks):
            for r in part:
                recs[r['id']] = {'compile': r['compile'], 'errors': r['errors'], 'front_panic': r.get('front_panic'),
                                 'dir': os.path.join(base, 'p%d' % r['id']), 'src': None, 'wasm': None, 'ts': None}
    ok = [i for i, r in enumerate(recs) if r['compile'] == 'ok']
    _, binp, _ = build_harness('debug')
    with concurrent.futures.ThreadPoolExecutor(max_workers=14) as ex:
        futs = {}
        if want_src:
            for i in range(len(progs)):
                if recs[i]['compile'] in ('ok',) or str(recs[i]['compile']).startswith('panic'):
                    futs[ex.submit(_src_run, binp, progs[i], fuel, i, tag)] = ('src', i)
        if want_ts:
            for i in ok:
                futs[ex.submit(_ts_run, os.path.join(recs[i]['dir'], progs[i]['entry'] + '.ts'), timeout_ms)] = ('ts', i)
        wasm_fut = None
        if want_wasm and ok:
            jf = os.path.join(base, 'wasm_jobs.json')
            main_suffix = lambda p: p['entry'].replace('.', '$') + '_Main$main' if False else None
            with open(jf, 'w') as f:
                json.dump([{'id': i, 'wasm': os.path.join(recs[i]['dir'], '__all__.wasm')} for i in ok], f)
            wasm_fut = ex.submit(lambda: subprocess.run(['node', os.path.join(ENG, 'run_wasm.js'), jf, str(timeout_ms)],
                                                        stdout=subprocess.PIPE, stderr=subprocess.PIPE, text=True, timeout=3000))
        for fut in concurrent.futures.as_completed(futs):
            kind, i = futs[fut]
            recs[i][kind] = fut.result()
        engine_ok = True
        if wasm_fut is not None:
            p = wasm_fut.result()
            for line in p.stdout.splitlines():
                if not line.startswith('{'):
                    continue
                o = json.loads(line)
                if 'engine' in o:
                    engine_ok = False
                    continue
                recs[o['id']]['wasm'] = {'lines': o['lines'], 'ending': o['ending']}
    for r in recs:
        r['engine_ok'] = engine_ok
    return recs


def same_behaviour(a, b):
    """a, b: outcomes with comparable endings (return / panic). Returns None if equal, else a description."""
    if a['lines'] != b['lines']:
        n = min(len(a['lines']), len(b['lines']))
        k = next((i for i in range(n) if a['lines'][i] != b['lines'][i]), n)
        return 'printed lines differ at line %d: %r vs %r' % (k, a['lines'][k] if k < len(a['lines']) else '<end>',
                                                              b['lines'][k] if k < len(b['lines']) else '<end>')
    ka, kb = a['ending']['kind'], b['ending']['kind']
    if ka != kb:
        return 'endings differ: %s vs %s' % (a['ending'], b['ending'])
    if ka == 'panic' and a['ending']['detail'] != b['ending']['detail']:
        return 'panic messages differ: %r vs %r' % (a['ending']['detail'], b['ending']['detail'])
    return None
