"""Batch access to the harness `front` command (parse + check [+ compile] of source sets)."""
import json

from lib.vlib import vh


def run_jobs(jobs, profile='debug', timeout=1200):
    """jobs: list of dicts (see harness/src/front.rs). Returns results in order."""
    inp = '\n'.join(json.dumps(j) for j in jobs) + '\n'
    rc, out = vh(['front'], profile=profile, timeout=timeout, input=inp)
    res = []
    for line in out.splitlines():
        if line.startswith('{'):
            res.append(json.loads(line))
    if len(res) != len(jobs):
        raise RuntimeError('front: %d results for %d jobs (rc=%s)\n%s' % (len(res), len(jobs), rc, out[-2000:]))
    return res
