"""All source-to-model translators that must run before the Coq theories are built (setup and checks)."""


def generate():
    done = []
    try:
        from checks import c18
        if hasattr(c18, 'generate'):
            c18.generate()
            done.append('c18')
    except Exception as e:        # noqa
        done.append('c18 failed: %s' % e)
    try:
        from checks import c08
        if hasattr(c08, 'generate'):
            c08.generate()
            done.append('c08')
    except Exception as e:        # noqa
        done.append('c08 failed: %s' % e)
    return done
