"""T-ops: regenerate coq/generated/OpsTable.v from the real TS and WAT printers (vh ops-table)."""
import json
import os
import re

from lib.vlib import COQ, vh

OPS = ['MUL', 'DIV', 'MOD', 'PLUS', 'MINUS', 'LAND', 'LOR', 'SHL', 'SHR', 'XOR', 'LT', 'LE', 'GT', 'GE', 'EQ', 'NE']


def parse_ts(stmt):
    """`let r = <rhs>;` -> Gallina ts_expr.  Known shapes: a OP b | f(a OP b)."""
    m = re.fullmatch(r'let r = (.*);', stmt)
    if not m:
        return 'TsUnknown "%s"' % stmt.replace('"', "'")
    rhs = m.group(1)
    m2 = re.fullmatch(r'([A-Za-z_.]+)\((.*)\)', rhs)
    if m2:
        inner = parse_infix(m2.group(2))
        if inner:
            return 'TsCall "%s" (%s)' % (m2.group(1), inner)
        return 'TsUnknown "%s"' % rhs.replace('"', "'")
    inner = parse_infix(rhs)
    return inner or 'TsUnknown "%s"' % rhs.replace('"', "'")


def parse_infix(text):
    m = re.fullmatch(r'a (\S+) b', text)
    return 'TsInfix "%s"' % m.group(1) if m else None


def parse_wat(instr):
    m = re.fullmatch(r'\(local\.set \$r \(([a-z0-9_.]+) \(local\.get \$a\) \(local\.get \$b\)\)\)', instr)
    return m.group(1) if m else 'unknown: ' + instr.replace('"', "'")


def generate():
    rc, out = vh(['ops-table'])
    line = [l for l in out.splitlines() if l.startswith('{')]
    if not line:
        raise RuntimeError('ops-table failed: ' + out[-500:])
    t = json.loads(line[-1])
    os.makedirs(os.path.join(COQ, 'generated'), exist_ok=True)
    body = ['(* GENERATED on every run by lib/opstable.py from `vh ops-table` (the real LIR TypeScript printer and',
            '   the real WAT printer applied to `r = a OP b`).  Do not edit. *)',
            'From Coq Require Import String.', 'From SV Require Import Common.Int32 C04.Sem.', 'Open Scope string_scope.', '',
            'Definition emit_ts (op : binop) : ts_expr :=', '  match op with']
    for op in OPS:
        body.append('  | %s => %s' % (op, parse_ts(t['ts'][op])))
    body += ['  end.', '', 'Definition emit_wasm (op : binop) : string :=', '  match op with']
    for op in OPS:
        body.append('  | %s => "%s"' % (op, parse_wat(t['wat'][op])))
    body += ['  end.', '']
    path = os.path.join(COQ, 'generated', 'OpsTable.v')
    text = '\n'.join(body)
    old = open(path).read() if os.path.exists(path) else None
    if old != text:
        with open(path, 'w') as f:
            f.write(text)
    return t
