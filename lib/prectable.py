"""T-ops (C08 part): regenerate coq/generated/PrecTable.v from `vh fmt-run prec-table`, i.e. from
`E::precedence()` called on a representative of every expression constructor and
`BinaryOperator::precedence()` / `kind_str()` of every operator of the code that is in /repo now."""
import json
import os

from lib.vlib import COQ, vh

BOPS = [('Mul', 'MUL'), ('Div', 'DIV'), ('Mod', 'MOD'), ('Plus', 'PLUS'), ('Minus', 'MINUS'), ('Lt', 'LT'), ('Le', 'LE'),
        ('Gt', 'GT'), ('Ge', 'GE'), ('Eq', 'EQ'), ('Ne', 'NE'), ('And', 'AND'), ('Or', 'OR'), ('Concat', 'CONCAT')]
CTORS = ['Literal', 'LocalId', 'ClassId', 'Tuple', 'FieldAccess', 'MethodAccess', 'Unary', 'Call', 'IfElse', 'Match',
         'Lambda', 'Block']


def read_table():
    rc, out = vh(['fmt-run', 'prec-table'])
    line = [l for l in out.splitlines() if l.startswith('{')]
    if not line:
        raise RuntimeError('fmt-run prec-table failed: ' + out[-500:])
    t = json.loads(line[-1])
    if 'panic' in t:
        raise RuntimeError('fmt-run prec-table panicked: ' + t['panic'])
    return t


def render(t):
    body = ['(* GENERATED on every run by lib/prectable.py from `vh fmt-run prec-table` (the real',
            '   expr::E::precedence(), BinaryOperator::precedence() and kind_str()).  Do not edit. *)',
            'From Coq Require Import String.', 'From SV Require Import C08.Syntax.', 'Open Scope string_scope.', '',
            '(* E::precedence() of a node built with each constructor *)',
            'Definition ctor_prec (c : ector) : nat :=', '  match c with']
    for c in CTORS:
        body.append('  | C%s => %d' % (c, t['expr'][c]))
    body += ['  end.', '', '(* BinaryOperator::precedence() *)', 'Definition binop_prec (o : bop) : nat :=', '  match o with']
    for g, r in BOPS:
        body.append('  | %s => %d' % (g, t['binop'][r]))
    body += ['  end.', '', '(* E::precedence() of E::Binary with that operator *)',
             'Definition binary_node_prec (o : bop) : nat :=', '  match o with']
    for g, r in BOPS:
        body.append('  | %s => %d' % (g, t['binary_node'][r]))
    body += ['  end.', '', 'Definition binop_str (o : bop) : string :=', '  match o with']
    for g, r in BOPS:
        body.append('  | %s => "%s"' % (g, t['binop_str'][r]))
    body += ['  end.', '', 'Definition unop_str (u : uop) : string :=',
             '  match u with Not => "%s" | Neg => "%s" end.' % (t['unop_str']['NOT'], t['unop_str']['NEG']), '']
    return '\n'.join(body)


def generate():
    t = read_table()
    os.makedirs(os.path.join(COQ, 'generated'), exist_ok=True)
    path = os.path.join(COQ, 'generated', 'PrecTable.v')
    text = render(t)
    old = open(path).read() if os.path.exists(path) else None
    if old != text:
        with open(path, 'w') as f:
            f.write(text)
    return t
