"""Type-system kernel shared by C03 / C06 / C13 (DESIGN.md section 4; theories/TypeKernel).

Layer A: props(ck)                      — builds theories/TypeKernel/Props.v, reads Print Assumptions.
Layer B: kernel_correspondence(ck, ...) — the hand model theories/TypeKernel/Model.v against
         samlang_checker::verif::{contains_placeholder, assignable, type_meet, subst_type, solve_type_constraint}
         (type_system.rs, private; reached through the samlang_verif hook) on the same generated inputs.
         Implementation side: `vh type-kernel` (JSON on stdin).  Model side: coqc, vm_compute of Corr.kbad.

JSON encoding of types (harness/src/type_kernel.rs):
  ["any", R, placeholder] | ["prim", R, "unit"|"bool"|"int"] | ["nom", R, statics, "Mod", "Id", [T...]]
  | ["gen", R, "Name"] | ["fn", R, [T...], T]          R = n (def_loc None) | [n, d] (def_loc Some d)
"""
import json
import re

from gen.rng import Rng
from lib.vlib import check_props, coq_eval_many, coq_result, vh

MODULES = ['M0', 'M1']
CLASSES = ['A', 'B', 'C']
GENERICS = ['T', 'U', 'V']
PRIMS = ['unit', 'bool', 'int']
PRIM_COQ = {'unit': 'PUnit', 'bool': 'PBool', 'int': 'PInt'}
FN = {'assign': 'assignable', 'meet': 'type_meet', 'placeholder': 'contains_placeholder',
      'subst': 'subst_type', 'solve': 'solve_type_constraint'}
MODEL_FN = {'assign': 'assignable', 'meet': 'meet', 'placeholder': 'contains_placeholder',
            'subst': 'subst', 'solve': 'solve'}
HEADER = ('From Coq Require Import List Arith Bool NArith. Import ListNotations.\n'
          'From SV Require Import TypeKernel.Model TypeKernel.Corr.\n'
          'Definition r (n : nat) := Rsn n None.\nDefinition rd (n d : nat) := Rsn n (Some d).\n')


# ----------------------------------------------------------------------------- generator

class Gen:
    def __init__(self, rng):
        self.rng = rng
        self.ctr = 0
        self.mode = 'mixed'      # 'mixed' | 'generic' (leaves are mostly type variables, no Any) | 'ground' (no Any)

    def reset(self):
        self.ctr = 0

    def reason(self):
        self.ctr += 1
        if self.rng.chance(1, 4):
            return [self.ctr, self.rng.range(1, 40)]
        return self.ctr

    def leaf(self, statics_ok=True):
        r = self.rng
        k = r.below(10)
        if self.mode == 'generic':
            k = r.pick([0, 3, 3, 3, 3, 3, 4, 5, 8, r.below(10)])
        elif self.mode == 'ground' and 6 <= k < 8:
            k = r.below(6)
        if k < 3:
            return ['prim', self.reason(), r.pick(PRIMS)]
        if k < 6:
            return ['gen', self.reason(), r.pick(GENERICS)]
        if k < 8:
            return ['any', self.reason(), r.chance(1, 2)]
        return ['nom', self.reason(), statics_ok and r.chance(1, 4), r.pick(MODULES), r.pick(CLASSES), []]

    def ty(self, depth, statics_args=False):
        r = self.rng
        if depth <= 0 or r.chance(1, 6 if self.mode == 'generic' else 4):
            return self.leaf()
        if r.chance(3, 5):
            n = r.pick([1, 1, 2, r.below(3)]) if self.mode == 'generic' else r.below(3)
            statics = r.chance(1, 6) and (n == 0 or statics_args)
            return ['nom', self.reason(), statics, r.pick(MODULES), r.pick(CLASSES),
                    [self.ty(depth - 1, statics_args) for _ in range(n)]]
        n = r.below(3)
        return ['fn', self.reason(), [self.ty(depth - 1, statics_args) for _ in range(n)], self.ty(depth - 1, statics_args)]

    def rereason(self, t):
        """The same type with fresh reasons in every node."""
        k = t[0]
        if k == 'nom':
            return ['nom', self.reason(), t[2], t[3], t[4], [self.rereason(a) for a in t[5]]]
        if k == 'fn':
            return ['fn', self.reason(), [self.rereason(a) for a in t[2]], self.rereason(t[3])]
        return [k, self.reason(), t[2]]

    def mutate_node(self, t, statics_args=False):
        """A type that differs from t at its root only (children kept where the root keeps them)."""
        r = self.rng
        k = t[0]
        if r.chance(1, 6):
            return ['any', self.reason(), r.chance(1, 2)]
        if k == 'any':
            return ['any', t[1], not t[2]] if r.chance(1, 2) else self.leaf()
        if k == 'prim':
            return ['prim', t[1], r.pick([p for p in PRIMS if p != t[2]])] if r.chance(2, 3) else ['gen', self.reason(), r.pick(GENERICS)]
        if k == 'gen':
            return ['gen', t[1], r.pick([g for g in GENERICS if g != t[2]])] if r.chance(2, 3) else ['prim', self.reason(), r.pick(PRIMS)]
        if k == 'nom':
            c = r.below(5)
            if c == 0:
                return ['nom', t[1], t[2], r.pick([m for m in MODULES if m != t[3]]), t[4], t[5]]
            if c == 1:
                return ['nom', t[1], t[2], t[3], r.pick([x for x in CLASSES if x != t[4]]), t[5]]
            if c == 2 and (not t[5] or statics_args):
                return ['nom', t[1], not t[2], t[3], t[4], t[5]]
            if c == 3 and t[5]:
                return ['nom', t[1], t[2], t[3], t[4], t[5][:-1]]
            if not t[2] or statics_args:
                return ['nom', t[1], t[2], t[3], t[4], t[5] + [self.leaf()]]
            return ['nom', t[1], t[2], t[3], r.pick([x for x in CLASSES if x != t[4]]), t[5]]
        # fn
        c = r.below(3)
        if c == 0 and t[2]:
            return ['fn', t[1], t[2][:-1], t[3]]
        if c == 1:
            return ['fn', t[1], t[2] + [self.leaf()], t[3]]
        return ['nom', self.reason(), False, r.pick(MODULES), r.pick(CLASSES), t[2][:2]]

    def mutate_one(self, t, statics_args=False):
        """A copy of t (fresh reasons) that differs from it in exactly one node."""
        paths = list(node_paths(t))
        p = self.rng.pick(paths)
        return self.rereason(replace_at(t, p, lambda n: self.mutate_node(n, statics_args)))

    def pair(self):
        """Pairs biased to be equal up to reasons or to differ in exactly one node."""
        r = self.rng
        l = self.ty(3)
        c = r.below(10)
        if c < 3:
            return l, self.rereason(l), 'equal-up-to-reasons'
        if c < 7:
            return l, self.mutate_one(l), 'one-node-apart'
        if c < 8:
            return self.mutate_one(l), self.mutate_one(l), 'two-nodes-apart'
        return l, self.ty(3), 'independent'


def node_paths(t, path=()):
    yield path
    if t[0] == 'nom':
        for i, a in enumerate(t[5]):
            yield from node_paths(a, path + (('a', i),))
    elif t[0] == 'fn':
        for i, a in enumerate(t[2]):
            yield from node_paths(a, path + (('a', i),))
        yield from node_paths(t[3], path + (('r', 0),))


def replace_at(t, path, f):
    if not path:
        return f(t)
    (kind, i), rest = path[0], path[1:]
    if t[0] == 'nom':
        args = list(t[5])
        args[i] = replace_at(args[i], rest, f)
        return ['nom', t[1], t[2], t[3], t[4], args]
    if kind == 'a':
        args = list(t[2])
        args[i] = replace_at(args[i], rest, f)
        return ['fn', t[1], args, t[3]]
    return ['fn', t[1], t[2], replace_at(t[3], rest, f)]


def py_subst(t, s):
    k = t[0]
    if k == 'gen':
        return s.get(t[2], t)
    if k == 'nom':
        return ['nom', t[1], t[2], t[3], t[4], [py_subst(a, s) for a in t[5]]]
    if k == 'fn':
        return ['fn', t[1], [py_subst(a, s) for a in t[2]], py_subst(t[3], s)]
    return t


def gen_cases(rng, tier):
    g = Gen(rng)
    unit = 400 if tier == 'quick' else 4000
    cases = []
    # assign + meet on the same pair
    for _ in range(2 * unit):
        g.reset()
        l, u, how = g.pair()
        if rng.chance(1, 8):
            l, u = u, l
        cases.append(({'k': 'assign', 'l': l, 'u': u}, how))
        cases.append(({'k': 'meet', 'l': l, 'u': u}, how))
    for _ in range(unit):
        g.reset()
        cases.append(({'k': 'placeholder', 'l': g.ty(3, True)}, 'random'))
    for _ in range(2 * unit):
        g.reset()
        t = g.ty(3, True)
        names = [n for n in GENERICS if rng.chance(2, 3)]
        s = {n: g.ty(rng.below(3), True) for n in names}
        cases.append(({'k': 'subst', 'l': t, 's': s}, '%d-names' % len(names)))
    for _ in range(3 * unit):
        g.reset()
        g.mode = 'mixed' if rng.chance(1, 8) else 'generic'
        generic = g.ty(3, True)
        params = [n for n in GENERICS if rng.chance(4, 5)]
        c = rng.below(12)
        g.mode = rng.pick(['ground', 'ground', 'ground', 'mixed'])
        if c < 11:
            sigma = {n: g.ty(rng.below(3), True) for n in GENERICS if rng.chance(4, 5)}
            concrete = g.rereason(py_subst(generic, sigma))
            how = 'instance'
            if c >= 5:
                concrete = g.mutate_one(concrete, True)
                how = 'instance-one-node-apart'
            if c >= 9:
                concrete = g.mutate_one(concrete, True)
                how = 'instance-two-nodes-apart'
        else:
            concrete = g.ty(3, True)
            how = 'independent'
        g.mode = 'mixed'
        cases.append(({'k': 'solve', 'l': concrete, 'u': generic, 'params': params}, how))
    return cases


# ----------------------------------------------------------------------------- Gallina encoding

def q_reason(r):
    return '(rd %d %d)' % (r[0], r[1]) if isinstance(r, list) else '(r %d)' % r


def q_list(xs):
    return '[' + '; '.join(xs) + ']'


def q_bool(b):
    return 'true' if b else 'false'


def q_ty(t):
    k = t[0]
    if k == 'any':
        return '(Any %s %s)' % (q_reason(t[1]), q_bool(t[2]))
    if k == 'prim':
        return '(Prim %s %s)' % (q_reason(t[1]), PRIM_COQ[t[2]])
    if k == 'gen':
        return '(Generic %s %d)' % (q_reason(t[1]), GENERICS.index(t[2]))
    if k == 'nom':
        return '(Nominal %s %s %d %d %s)' % (q_reason(t[1]), q_bool(t[2]), MODULES.index(t[3]), CLASSES.index(t[4]),
                                            q_list([q_ty(a) for a in t[5]]))
    if k == 'fn':
        return '(Fn %s %s %s)' % (q_reason(t[1]), q_list([q_ty(a) for a in t[2]]), q_ty(t[3]))
    raise ValueError('bad type %r' % (t,))


def q_map(pairs):
    pairs = sorted(((GENERICS.index(n), t) for n, t in pairs), key=lambda p: p[0])
    return q_list(['(%d, %s)' % (n, q_ty(t)) for n, t in pairs])


def q_case(c, res):
    k = c['k']
    if k == 'assign':
        return 'KAssign %s %s %s' % (q_ty(c['l']), q_ty(c['u']), q_bool(res))
    if k == 'placeholder':
        return 'KPlaceholder %s %s' % (q_ty(c['l']), q_bool(res))
    if k == 'meet':
        return 'KMeet %s %s %s' % (q_ty(c['l']), q_ty(c['u']), 'None' if res == 'none' else '(Some %s)' % q_ty(res))
    if k == 'subst':
        return 'KSubst %s %s %s' % (q_map(c['s'].items()), q_ty(c['l']), q_ty(res))
    if k == 'solve':
        return 'KSolve %s %s %s %s' % (q_ty(c['l']), q_ty(c['u']), q_list(['%d' % GENERICS.index(n) for n in c['params']]),
                                       q_map([(n, t) for n, t in res]))
    raise ValueError(k)


def well_formed_result(c, res):
    """The implementation's answer has the shape the encoding expects (otherwise it is reported as is)."""
    try:
        q_case(c, res)
        return True
    except (ValueError, TypeError, IndexError, KeyError, AttributeError):
        return False


# ----------------------------------------------------------------------------- the correspondence

def run_impl(cases, profile='debug'):
    rc, out = vh(['type-kernel'], profile=profile, input=json.dumps(cases), timeout=900)
    try:
        res = json.loads(out.strip().splitlines()[-1])
    except (ValueError, IndexError):
        return None, out
    if not isinstance(res, list) or len(res) != len(cases):
        return None, out
    return res, out


def model_disagreements(todo, tag, nshard):
    """todo: list of (case, impl_result).  Returns (list of (index in todo, code), list of evaluation errors)."""
    jobs = []
    for si in range(nshard):
        part = todo[si::nshard]
        body = HEADER + 'Definition cs : list kcase := [\n%s].\nEval vm_compute in (kbad 0%%N cs).\n' % ';\n'.join(
            q_case(c, r) for c, r in part)
        jobs.append(('typekernel_%s_%d' % (tag, si), body))
    outs = coq_eval_many(jobs)
    bad, errors = [], []
    for si, (rc, o) in enumerate(outs):
        resl = coq_result(o) if rc == 0 else None
        if resl is None:
            errors.append(o[-600:])
            continue
        for idx, code in re.findall(r'\((\d+)%N,\s*(\d+)\)', resl):
            bad.append((si + nshard * int(idx), int(code)))
    return bad, errors


def model_answers(items, tag):
    """The model's answer (a printed Gallina term) for a few cases."""
    jobs = [('typekernel_%s_ans_%d' % (tag, i), HEADER + 'Eval vm_compute in (kmodel (%s)).\n' % q_case(c, r))
            for i, (c, r) in enumerate(items)]
    res = []
    for rc, o in coq_eval_many(jobs):
        res.append((coq_result(o) if rc == 0 else None) or 'model evaluation failed: ' + o[-300:])
    return res


def kernel_correspondence(ck, tier, seed, pid):
    rng = Rng(seed ^ 0x7E4C)
    tagged = gen_cases(rng, tier)
    cases = [c for c, _ in tagged]
    tag = '%s_%s' % (pid, tier)
    res, out = run_impl(cases)
    if res is None:
        ck.obligation('type-kernel correspondence ran', False, 'vh type-kernel: ' + out[-600:])
        return False
    todo, pos = [], []
    for i, ((c, how), r) in enumerate(zip(tagged, res)):
        k = c['k']
        ck.case(['typekernel', c], True)
        ck.count('typekernel:%s:%s' % (k, how))
        if k in ('assign', 'placeholder') and isinstance(r, bool):
            ck.count('typekernel:%s=%s' % (k, str(r).lower()))
        elif k == 'meet':
            ck.count('typekernel:meet=%s' % ('none' if r == 'none' else 'some'))
        elif k == 'solve' and isinstance(r, list):
            ck.count('typekernel:solve=%d-bindings' % len(r))
        if r == 'panic' or not well_formed_result(c, r):
            ck.disagree('TypeKernel.%s vs samlang_checker::verif::%s' % (MODEL_FN[k], FN[k]), c,
                        'a total function (the model never fails)', r,
                        how="echo '[<input>]' | vh type-kernel")
            continue
        todo.append((c, r))
        pos.append(i)
    nshard = 16 if tier == 'quick' else 48
    bad, errors = model_disagreements(todo, tag, nshard)
    for e in errors:
        ck.obligation('model-evaluation(TypeKernel.Corr.kbad)', False, e)
    bad.sort()
    answers = model_answers([todo[i] for i, _ in bad[:12]], tag) if bad else []
    for n, (i, code) in enumerate(bad):
        c, r = todo[i]
        k = c['k']
        table = 'TypeKernel.%s vs samlang_checker::verif::%s' % (MODEL_FN[k], FN[k])
        if code == 2:
            table += ' (reasons kept in the result)'
        ck.disagree(table, c, answers[n] if n < len(answers) else 'see theories/TypeKernel/Model.v', r,
                    how="echo '[<input>]' | vh type-kernel   (case %d of seed %d, tier %s)" % (pos[i], seed, tier))
    ck.obligation('type-kernel correspondence ran', not errors,
                  '%d cases (%d compared in coqc, %d disagreements)' % (len(cases), len(todo), len(bad)))
    ck.sample({'type_kernel_cases': [cases[0], cases[-1]], 'implementation': [res[0], res[-1]]})
    return not bad and not errors


def props(ck):
    return check_props(ck, 'theories/TypeKernel/Props.v')


# text for the evidence file of the calling check
CHECKER_CMD = 'make -C /verif/coq theories/TypeKernel/Props.vo (coqc 8.16.1) + Print Assumptions per theorem'
TRUSTED = ('hand-written model theories/TypeKernel/Model.v of type_system.rs (contains_placeholder, assignability_check, '
           'type_meet, subst_type, solve_multiple_type_constrains); reasons abstracted to (use_loc, def_loc) numbers, '
           'module/class/type-variable names to numbers, the error stack is not modelled; tie: generated type trees '
           'through the samlang_verif hook samlang_checker::verif, answers compared in full (reasons included) by '
           'TypeKernel.Corr.kbad under vm_compute')
RULE = ('type trees of depth <= 3 over 2 modules x 3 class names x arities 0-2, 3 type-variable names, 3 primitives, Any with '
        'both placeholder flags, function types; pairs equal up to reasons / one node apart / two nodes apart / independent; '
        'substitutions of 0-3 names; solver constraints where the concrete type is an instance of the generic type, '
        'exactly or up to one or two node mutations; class-statics nominal types carry type arguments only in '
        'subst/solve/placeholder cases (assignability failure on them trips a debug assertion in to_description)')
