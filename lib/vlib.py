"""Shared machinery of the /verif checks (see DESIGN.md section 2).

Layer A: build the property's Coq theories, parse Print Assumptions, scan for forbidden constructs.
Layer B: run model (inside coqc, vm_compute) and implementation (harness `vh`) on the same inputs.
Layer C: property monitors on the implementation.
Verdict + evidence + replay files.
"""
import concurrent.futures
import hashlib
import json
import os
import re
import subprocess
import sys
import time

ROOT = '/verif'
COQ = os.path.join(ROOT, 'coq')
ALT = 'VERIF_REPO' in os.environ
OUT_ROOT = (os.environ['VERIF_REPO'] + '-out') if ALT else ROOT     # evidence / replay of alt runs never touch /verif
WORK = os.path.join(OUT_ROOT, 'work')
# VERIF_REPO / VERIF_HARNESS let tools/altrepo.sh run the checks against a patched COPY of the repository
# (seeded-mutant evaluation) without touching /repo; the registered commands never set them.
REPO = os.environ.get('VERIF_REPO', '/repo')
HARNESS = os.environ.get('VERIF_HARNESS', os.path.join(ROOT, 'harness'))
GUARD = 'samlang_verif'
NCPU = os.cpu_count() or 4

ALLOWED_AXIOMS = {
    # standard-library axioms a theorem may depend on (named in DESIGN.md section 5)
    'functional_extensionality_dep', 'proof_irrelevance', 'classic', 'JMeq_eq', 'eq_rect_eq',
    'Eqdep.Eq_rect_eq.eq_rect_eq', 'FunctionalExtensionality.functional_extensionality_dep',
}
FORBIDDEN = re.compile(
    r'\b(Admitted|admit|Axiom|Axioms|Parameter|Parameters|Conjecture|Conjectures|Admit Obligations|'
    r'Unset Guard Checking|Unset Positivity Checking|Unset Universe Checking|bypass_check|'
    r'type-in-type|impredicative-set)\b')


def sh(cmd, timeout=600, cwd=None, env=None, input=None):
    e = dict(os.environ)
    e['CARGO_NET_OFFLINE'] = 'true'
    e.setdefault('SAMLANG_STD_DIR', os.path.join(REPO, 'std'))
    if env:
        e.update(env)
    try:
        p = subprocess.run(cmd, shell=isinstance(cmd, str), cwd=cwd, env=e, input=input,
                           stdout=subprocess.PIPE, stderr=subprocess.STDOUT, timeout=timeout, text=True)
        return p.returncode, p.stdout
    except subprocess.TimeoutExpired as ex:
        out = ex.stdout.decode() if isinstance(ex.stdout, bytes) else (ex.stdout or '')
        return 124, out + '\n[timeout after %ss]' % timeout


def strip_comments(text):
    out, depth, i = [], 0, 0
    while i < len(text):
        if text.startswith('(*', i):
            depth += 1
            i += 2
        elif text.startswith('*)', i) and depth > 0:
            depth -= 1
            i += 2
        else:
            if depth == 0:
                out.append(text[i])
            i += 1
    return ''.join(out)


# ----------------------------------------------------------------------------- harness

_built = {}


def build_harness(profile='debug'):
    """cargo build of /verif/harness against /repo's current working tree, hooks on."""
    if profile in _built:
        return _built[profile]
    lock = os.path.join(HARNESS, 'Cargo.lock')
    if not os.path.exists(lock):
        sh('cp %s/Cargo.lock %s' % (REPO, lock))
    args = 'cargo build --offline' + (' --release' if profile == 'release' else '')
    tdir = os.path.join(HARNESS, 'target')
    rc, out = sh(args, timeout=1500, cwd=HARNESS,
                 env={'RUSTFLAGS': '--cfg ' + GUARD, 'CARGO_TARGET_DIR': tdir})
    binp = os.path.join(tdir, profile, 'vh')
    res = (rc == 0 and os.path.exists(binp), binp, out)
    _built[profile] = res
    return res


def vh(args, profile='debug', timeout=600, input=None, env=None):
    ok, binp, out = build_harness(profile)
    if not ok:
        raise RuntimeError('harness build failed:\n' + out[-4000:])
    rc, out = sh([binp] + [str(a) for a in args], timeout=timeout, input=input, env=env)
    return rc, out


# ----------------------------------------------------------------------------- Coq

def coq_make(targets, timeout=1500, force=()):
    sh('./mkproject.sh', cwd=COQ)
    for f in force:
        for ext in ('.vo', '.vok', '.vos', '.glob'):
            try:
                os.remove(os.path.join(COQ, f[:-2] + ext))
            except FileNotFoundError:
                pass
    return sh('make -j%d %s' % (NCPU, ' '.join(targets)), timeout=timeout, cwd=COQ)


def parse_props(path):
    """Theorem names and Print Assumptions targets in a Props.v."""
    text = strip_comments(open(path).read())
    thms = re.findall(r'^\s*Theorem\s+(\w+)', text, re.M)
    pa = re.findall(r'^\s*Print Assumptions\s+(\w+)\s*\.', text, re.M)
    return thms, pa, text


def check_props(ck, rel_props, extra_deps=()):
    """Layer A for one Props.v: rebuild it, read the Print Assumptions blocks."""
    path = os.path.join(COQ, rel_props)
    thms, pa, text = parse_props(path)
    # every theorem must be closed by `exact` and have its assumptions printed
    for t in thms:
        if t not in pa:
            ck.obligation(t, False, 'no Print Assumptions for it in ' + rel_props)
    # forbidden constructs anywhere in the theories of this property and Common
    d = os.path.dirname(path)
    dirs = [d, os.path.join(COQ, 'theories', 'Common')] + [os.path.join(COQ, x) for x in extra_deps]
    bad = []
    for dd in dirs:
        if not os.path.isdir(dd):
            continue
        for fn in sorted(os.listdir(dd)):
            if fn.endswith('.v'):
                body = strip_comments(open(os.path.join(dd, fn)).read())
                for m in FORBIDDEN.finditer(body):
                    bad.append('%s: %s' % (os.path.join(dd, fn), m.group(0)))
    if bad:
        ck.obligation('no-forbidden-constructs', False, '; '.join(bad[:5]))
    else:
        ck.obligation('no-forbidden-constructs', True, 'scan of %s' % ', '.join(os.path.relpath(x, COQ) for x in dirs))
    target = rel_props[:-2] + '.vo'
    # siblings too (Corr.v is not a dependency of Props.v but is loaded by the model evaluations)
    sibs = sorted(os.path.join(os.path.dirname(rel_props), fn[:-2] + '.vo') for fn in os.listdir(d)
                  if fn.endswith('.v') and not fn.startswith('.'))
    rc, out = coq_make([target] + [x for x in sibs if x != target], force=[rel_props])
    ck.coq_log = out
    if rc != 0:
        m = re.search(r'File "([^"]+)", line (\d+).*?\n(Error:.*?)(?:\n\n|\Z)', out, re.S)
        where = ('%s:%s %s' % (m.group(1), m.group(2), ' '.join(m.group(3).split())[:300])) if m else out[-600:]
        for t in thms:
            ck.obligation(t, False, 'build failed: ' + where)
        return False
    # Print Assumptions output: one block per command, in order
    blocks = re.split(r'(?=Closed under the global context|Axioms:)', out)
    blocks = [b for b in blocks if b.startswith('Closed under') or b.startswith('Axioms:')]
    if len(blocks) != len(pa):
        for t in thms:
            ck.obligation(t, False, 'could not match Print Assumptions output (%d blocks, %d commands)' % (len(blocks), len(pa)))
        return False
    okall = True
    for name, b in zip(pa, blocks):
        if b.startswith('Closed under'):
            ck.obligation(name, True, 'Closed under the global context')
        else:
            axs = re.findall(r'^(\S+)\s*:', b[len('Axioms:'):], re.M)
            notallowed = [a for a in axs if a.split('.')[-1] not in ALLOWED_AXIOMS and a not in ALLOWED_AXIOMS]
            ck.obligation(name, not notallowed, 'axioms: ' + ', '.join(axs))
            ck.axioms.update(axs)
            okall = okall and not notallowed
    return okall


def coq_eval(name, text, timeout=900):
    """Compile one generated .v under work/ and return (rc, output)."""
    os.makedirs(WORK, exist_ok=True)
    path = os.path.join(WORK, name + '.v')
    with open(path, 'w') as f:
        f.write(text)
    rc, out = sh(['coqc', '-noglob', '-Q', os.path.join(COQ, 'theories'), 'SV', '-Q', os.path.join(COQ, 'generated'), 'SVG', path],
                 timeout=timeout, cwd=WORK)
    return rc, out


def coq_eval_many(jobs, timeout=900):
    """jobs: list of (name, text).  Runs them on all cores."""
    with concurrent.futures.ThreadPoolExecutor(max_workers=NCPU) as ex:
        futs = [ex.submit(coq_eval, n, t, timeout) for n, t in jobs]
        return [f.result() for f in futs]


def coq_result(out):
    """The text after '=' of the (single) Eval in a coqc output, whitespace-joined."""
    m = re.search(r'^\s*=\s*(.*?)\n\s*:\s', out, re.S | re.M)
    if not m:
        return None
    return ' '.join(m.group(1).split())


# Gallina literals ----------------------------------------------------------------

def g_nat(n):
    return '(N.to_nat %d)' % n if n > 50 else '%d%%nat' % n


def g_N(n):
    return '%d%%N' % n


def g_Z(n):
    return '(%d)%%Z' % n


def g_bytes(s):
    b = s.encode('utf-8') if isinstance(s, str) else bytes(s)
    return '[' + ';'.join('%d' % x for x in b) + ']%N'


def g_list(xs):
    return '[' + '; '.join(xs) + ']'


def g_opt(x):
    return 'None' if x is None else '(Some %s)' % x


def g_bool(b):
    return 'true' if b else 'false'


# ----------------------------------------------------------------------------- check object

class Check:
    def __init__(self, pid, tier, seed, level='proof'):
        # the evidence schema knows the level 'proof'; "partial" is said in MANIFEST level_claimed.text and in the trusted base
        self.level_detail = level
        level = 'proof' if level.startswith('proof') else level
        self.pid, self.tier, self.seed, self.level = pid, tier, seed, level
        self.t0 = time.time()
        self.obls = []            # (name, ok, detail)
        self.axioms = set()
        self.corr_fail = []       # model/implementation disagreements
        self.mon_fail = []        # property failures observed on the implementation
        self.known_hits = {}      # finding id -> count
        self.evaluations = 0
        self.distinct = set()
        self.samples = []
        self.notes = []
        self.distribution = {}
        self.trusted = []
        self.assumptions = []
        self.rule = ''
        self.checker_cmd = ''
        self.coq_log = ''
        self.extra_cov = {}
        kf = json.load(open(os.path.join(ROOT, 'known_findings.json')))
        self.known = [k for k in kf['findings'] if k['property'] == pid]

    # --- bookkeeping
    def obligation(self, name, ok, detail=''):
        self.obls.append((name, bool(ok), detail))

    def case(self, canon, nontrivial=True):
        self.evaluations += 1
        if nontrivial:
            self.distinct.add(hashlib.sha1(json.dumps(canon, sort_keys=True, default=str).encode()).hexdigest())

    def count(self, key, n=1):
        self.distribution[key] = self.distribution.get(key, 0) + n

    def sample(self, x, cap=4):
        if len(self.samples) < cap:
            self.samples.append(x)

    def disagree(self, table, input, expected, observed, how=''):
        self.corr_fail.append({'correspondence': table, 'input': input, 'model': expected, 'implementation': observed, 'how': how})

    def property_failure(self, what, input, expected=None, observed=None, how='', klass=None):
        """A failure of the property itself on the implementation. klass: known-finding id or None."""
        if klass is not None:
            for k in self.known:
                if k['id'] == klass and k['status'] == 'open':
                    self.known_hits[klass] = self.known_hits.get(klass, 0) + 1
                    return
        self.mon_fail.append({'what': what, 'input': input, 'expected': expected, 'observed': observed, 'how': how})

    def known_witness(self, kid, still_fails, detail=''):
        """Result of replaying the witness of a listed finding."""
        for k in self.known:
            if k['id'] == kid:
                if k['status'] == 'open' and still_fails:
                    self.known_hits[kid] = self.known_hits.get(kid, 0) + 1
                elif k['status'] == 'open' and not still_fails:
                    self.notes.append('known finding %s no longer reproduces (%s)' % (kid, detail))
                elif k['status'] == 'fixed' and still_fails:
                    self.mon_fail.append({'what': 'fixed finding %s is back: %s' % (kid, k['what']),
                                          'input': k.get('witness'), 'observed': detail, 'expected': None, 'how': ''})
                return
        raise KeyError(kid)

    # --- verdict
    def finish(self):
        os.makedirs(os.path.join(OUT_ROOT, 'replay'), exist_ok=True)
        os.makedirs(os.path.join(OUT_ROOT, 'evidence'), exist_ok=True)
        lines = []
        for k in self.known:
            if k['status'] == 'open' and self.known_hits.get(k['id']):
                lines.append('KNOWN-FINDING: property=%s %s [%s]' % (self.pid, k['what'], k['id']))
        nviol = 0
        failed_obls = [(n, d) for n, ok, d in self.obls if not ok]

        def write_replay(obj):
            blob = json.dumps(obj, sort_keys=True, default=str)
            h = hashlib.sha1(blob.encode()).hexdigest()[:12]
            path = os.path.join(OUT_ROOT, 'replay', '%s-%s.json' % (self.pid, h))
            with open(path, 'w') as f:
                json.dump(obj, f, indent=1, default=str)
            return path

        seen = set()
        for mf in self.mon_fail[:5]:
            key = json.dumps(mf, sort_keys=True, default=str)
            if key in seen:
                continue
            seen.add(key)
            path = write_replay({'property': self.pid, 'kind': 'input', 'seed': self.seed, 'tier': self.tier,
                                 'what': mf['what'], 'input': mf['input'], 'expected': mf['expected'],
                                 'observed': mf['observed'], 'how': mf['how'] or './check %s --replay <this file>' % self.pid})
            lines.append('VIOLATION property=%s replay=%s' % (self.pid, path))
            nviol += 1
        if not self.mon_fail and (failed_obls or self.corr_fail):
            obj = {'property': self.pid, 'kind': 'obligation', 'seed': self.seed, 'tier': self.tier,
                   'theorem_or_table': [n for n, _ in failed_obls] + sorted({c['correspondence'] for c in self.corr_fail}),
                   'failed_obligations': [{'name': n, 'detail': d} for n, d in failed_obls],
                   'first_disagreements': self.corr_fail[:3],
                   'note': 'the property is no longer shown to hold: a proof obligation or the model/implementation '
                           'correspondence no longer checks and the search found no input on which the property itself fails',
                   'how': './check %s --tier %s' % (self.pid, self.tier)}
            path = write_replay(obj)
            lines.append('VIOLATION property=%s replay=%s no-failing-input-found' % (self.pid, path))
            nviol += 1
        ev = {
            'property_id': self.pid, 'tier': self.tier, 'seed': self.seed, 'level': self.level,
            'coverage': {
                'obligations': len(self.obls),
                'discharged': sum(1 for _, ok, _ in self.obls if ok),
                'obligation_list': [{'name': n, 'ok': ok, 'detail': d[:300]} for n, ok, d in self.obls],
                'checker_cmd': self.checker_cmd,
                'trusted_base': self.trusted,
                'evaluations': self.evaluations,
                'distinct_nontrivial': len(self.distinct),
                'rule': self.rule,
                'samples': self.samples,
                'distribution': self.distribution,
                'correspondence_disagreements': len(self.corr_fail),
                'property_failures_on_implementation': len(self.mon_fail),
                'known_findings_reproduced': self.known_hits,
                'notes': self.notes,
                'explanation': 'obligations/discharged are counted from this run\'s coqc build and Print Assumptions '
                               'output; evaluations/distinct_nontrivial count the correspondence and monitor cases '
                               '(testing, not proof).',
            },
            'assumptions': self.assumptions,
            'wall_s': round(time.time() - self.t0, 2),
            'violations': nviol,
        }
        ev['coverage'].update(self.extra_cov)
        with open(os.path.join(OUT_ROOT, 'evidence', self.pid + '.json'), 'w') as f:
            json.dump(ev, f, indent=1, default=str)
        for ln in lines:
            print(ln)
        print('%s: tier=%s seed=%d obligations=%d/%d evaluations=%d distinct=%d corr_disagreements=%d '
              'property_failures=%d wall=%.1fs' % (
                  self.pid, self.tier, self.seed, ev['coverage']['discharged'], len(self.obls), self.evaluations,
                  len(self.distinct), len(self.corr_fail), len(self.mon_fail), ev['wall_s']))
        sys.stdout.flush()
        return 1 if nviol else 0
