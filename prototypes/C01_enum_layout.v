(* Feasibility prototype for C01/C12: enum layout choice
   (mir_generics_specialization.rs 580-663) and injectivity of the run-time encoding. *)
From Coq Require Import List Arith Bool ZArith Lia.
Import ListNotations.

Inductive ty := TInt | TId (n : nat).
Inductive tdef := DStruct (fields : list ty) | DEnum (variants : list (list ty)).

Inductive repr := RInt31 | RUnboxed (t : nat) | RBoxed (fields : list ty).
Inductive ldef := LStruct (fields : list ty) | LEnum (rs : list repr).

Fixpoint lookup {A} (n : nat) (l : list (nat * A)) : option A :=
  match l with [] => None | (m, a) :: l' => if Nat.eqb n m then Some a else lookup n l' end.

Definition is_boxed (r : repr) : bool := match r with RBoxed _ => true | _ => false end.

(* ---------------- the layout decision for one enum ---------------- *)
Section Decide.
  (* may a payload of this type be stored without a box?  (type_permit_enum_boxed_optimization) *)
  Variable permit : ty -> bool.

  (* state of the loop over variants: output so far, permit flag, pending unboxed (index, type) *)
  Definition dstate := (list repr * bool * option (nat * nat))%type.

  Definition set_nth {A} (l : list A) (i : nat) (x : A) : list A :=
    firstn i l ++ x :: skipn (S i) l.

  Definition decide_step (st : dstate) (tys : list ty) : dstate :=
    let '(out, perm, pending) := st in
    match tys with
    | [] => (out ++ [RInt31], perm, pending)
    | _ =>
        let out1 := match pending with Some (i, t) => set_nth out i (RBoxed [TInt; TId t]) | None => out end in
        match pending, perm, tys with
        | None, true, [TId t] =>
            if permit (TId t) then (out1 ++ [RUnboxed t], false, Some (length out1, t))
            else (out1 ++ [RBoxed (TInt :: tys)], false, None)
        | _, _, _ => (out1 ++ [RBoxed (TInt :: tys)], false, None)
        end
    end.

  Definition decide (variants : list (list ty)) : list repr :=
    let '(out, _, _) := fold_left decide_step variants ([], true, None) in out.
End Decide.

(* ---------------- the specialisation order ---------------- *)
Record sstate := { names : list nat; defs : list (nat * ldef) }.

Definition permit_in (unfinished_is_pointer : bool) (st : sstate) (t : ty) : bool :=
  match t with
  | TInt => false
  | TId m =>
      match lookup m (defs st) with
      | Some (LStruct _) => true
      | Some (LEnum rs) => forallb is_boxed rs
      | None => unfinished_is_pointer && existsb (Nat.eqb m) (names st)
      end
  end.

Section Spec.
  Variable env : nat -> option tdef.
  Variable unfinished_is_pointer : bool.   (* true = the code as written *)

  Fixpoint spec_ty (fuel : nat) (st : sstate) (t : ty) : sstate :=
    match fuel with
    | O => st
    | S fuel' =>
        match t with
        | TInt => st
        | TId n =>
            if existsb (Nat.eqb n) (names st) then st
            else
              let st0 := {| names := n :: names st; defs := defs st |} in
              match env n with
              | None => st0
              | Some (DStruct fs) =>
                  let st1 := fold_left (spec_ty fuel') fs st0 in
                  {| names := names st1; defs := (n, LStruct fs) :: defs st1 |}
              | Some (DEnum vs) =>
                  (* fields of a variant are rewritten (hence specialised) before its layout is decided *)
                  let step := fun (acc : sstate * dstate) (tys : list ty) =>
                                let st' := fold_left (spec_ty fuel') tys (fst acc) in
                                (st', decide_step (permit_in unfinished_is_pointer st') (snd acc) tys) in
                  let '(st1, (out, _, _)) := fold_left step vs (st0, ([], true, None)) in
                  {| names := names st1; defs := (n, LEnum out) :: defs st1 |}
              end
        end
    end.
End Spec.

(* ---------------- values and their run-time encoding ---------------- *)
Inductive value := VInt (z : Z) | VStruct (n : nat) (fs : list value) | VEnum (n : nat) (tag : nat) (args : list value).
Inductive rt := RI32 (z : Z) | RI31 (k : nat) | RPtr (n : nat) (tag : option nat) (fields : list rt).

Section Encode.
  Variable L : list (nat * ldef).
  Fixpoint encode (v : value) : rt :=
    match v with
    | VInt z => RI32 z
    | VStruct n fs => RPtr n None (map encode fs)
    | VEnum n tag args =>
        match lookup n L with
        | Some (LEnum rs) =>
            match nth tag rs RInt31 with
            | RInt31 => RI31 tag
            | RUnboxed _ => match args with [a] => encode a | _ => RI31 tag end
            | RBoxed _ => RPtr n (Some tag) (map encode args)
            end
        | _ => RI31 tag
        end
    end.
End Encode.

(* ---------------- the pinned tree: Nat(Zero, Succ(Nat)) ---------------- *)
Definition nat_env (n : nat) : option tdef :=
  match n with 0 => Some (DEnum [[]; [TId 0]]) | _ => None end.

Definition nat_layout_as_written := defs (spec_ty nat_env true 10 {| names := []; defs := [] |} (TId 0)).
Definition nat_layout_conservative := defs (spec_ty nat_env false 10 {| names := []; defs := [] |} (TId 0)).

Definition zero := VEnum 0 0 [].
Definition succ (v : value) := VEnum 0 1 [v].

(* the code as written unboxes Succ's payload, so Succ(Zero) and Zero get the same run-time value *)
Lemma layout_injective_refuted :
  nat_layout_as_written = [(0, LEnum [RInt31; RUnboxed 0])] /\
  encode nat_layout_as_written (succ zero) = encode nat_layout_as_written zero /\ succ zero <> zero.
Proof. repeat split; try (vm_compute; reflexivity). discriminate. Qed.

(* returning `false` for a type that is still being processed boxes the variant and separates the values *)
Lemma layout_conservative_separates :
  nat_layout_conservative = [(0, LEnum [RInt31; RBoxed [TInt; TId 0]])] /\
  encode nat_layout_conservative (succ zero) <> encode nat_layout_conservative zero.
Proof. split; [vm_compute; reflexivity|]. vm_compute. discriminate. Qed.

(* ---------------- C12: the choice depends on which type of a cycle is entered first -------------- *)
(* A(X, Y(B))  and  B(P, Q(A)) *)
Definition ab_env (n : nat) : option tdef :=
  match n with
  | 0 => Some (DEnum [[]; [TId 1]])
  | 1 => Some (DEnum [[]; [TId 0]])
  | _ => None
  end.
Definition ab_from (t : nat) := defs (spec_ty ab_env true 10 {| names := []; defs := [] |} (TId t)).

Lemma layout_order_dependent :
  lookup 0 (ab_from 0) <> lookup 0 (ab_from 1).
Proof. vm_compute. discriminate. Qed.

(* ... and with either order two different values of B collide:  Q(X) and P *)
Lemma layout_cycle_collision :
  encode (ab_from 0) (VEnum 1 1 [VEnum 0 0 []]) = encode (ab_from 0) (VEnum 1 0 []).
Proof. vm_compute. reflexivity. Qed.
