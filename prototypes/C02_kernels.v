(* Feasibility prototype for C02: arithmetic kernels of the optimiser against an
   explicit model of i32 arithmetic.  Theorems state the exact side conditions;
   `_refuted` lemmas give the witness where the code does not check them. *)
From Coq Require Import ZArith Lia Bool List.
Import ListNotations.
Open Scope Z_scope.

Definition MIN := -2147483648.
Definition MAX := 2147483647.
Definition in32 (z : Z) : Prop := MIN <= z <= MAX.
Definition wrap32 (z : Z) : Z := (z + 2147483648) mod 4294967296 - 2147483648.

Lemma wrap32_id z : in32 z -> wrap32 z = z.
Proof. unfold wrap32, in32, MIN, MAX. intros. rewrite Z.mod_small; lia. Qed.
Lemma wrap32_in z : in32 (wrap32 z).
Proof. unfold wrap32, in32, MIN, MAX. pose proof (Z.mod_pos_bound (z + 2147483648) 4294967296). lia. Qed.

Inductive cmp := LT | LE | GT | GE | EQ | NE.
Definition cmp_eval (c : cmp) (a b : Z) : bool :=
  match c with
  | LT => a <? b | LE => a <=? b | GT => a >? b | GE => a >=? b | EQ => a =? b | NE => negb (a =? b)
  end.

(* ---- run-time (wasm) semantics of the arithmetic operators ---- *)
Inductive rt := Val (z : Z) | TrapArith.
Definition rt_add a b := Val (wrap32 (a + b)).
Definition rt_sub a b := Val (wrap32 (a - b)).
Definition rt_mul a b := Val (wrap32 (a * b)).
Definition rt_div a b := if b =? 0 then TrapArith else if (a =? MIN) && (b =? -1) then TrapArith else Val (Z.quot a b).
Definition rt_rem a b := if b =? 0 then TrapArith else Val (Z.rem a b).

(* ---- compile-time folding as written (evaluate_bin_op), release profile:
        + - * wrap, / and % panic on MIN / -1 ---- *)
Inductive fold := Folded (z : Z) | NoFold | CompilerPanics.
Definition fold_add a b := Folded (wrap32 (a + b)).
Definition fold_mul a b := Folded (wrap32 (a * b)).
Definition fold_div a b := if b =? 0 then NoFold else if (a =? MIN) && (b =? -1) then CompilerPanics else Folded (Z.quot a b).
Definition fold_rem a b := if b =? 0 then NoFold else if (a =? MIN) && (b =? -1) then CompilerPanics else Folded (Z.rem a b).

Theorem fold_div_correct a b r : in32 a -> in32 b -> fold_div a b = Folded r -> rt_div a b = Val r.
Proof. unfold fold_div, rt_div. intros _ _. destruct (b =? 0); [discriminate|]. destruct ((a =? MIN) && (b =? -1)); [discriminate|]. congruence. Qed.

Theorem fold_rem_correct a b r : in32 a -> in32 b -> fold_rem a b = Folded r -> rt_rem a b = Val r.
Proof. unfold fold_rem, rt_rem. intros _ _. destruct (b =? 0); [discriminate|]. destruct ((a =? MIN) && (b =? -1)); [discriminate|]. congruence. Qed.

(* the full-strength statement "folding never crashes the compiler" is false *)
Lemma fold_div_total_refuted : exists a b, in32 a /\ in32 b /\ fold_div a b = CompilerPanics.
Proof. exists MIN, (-1). unfold in32, MIN, MAX. repeat split; try lia; reflexivity. Qed.
(* ... and even where the run-time result is perfectly defined *)
Lemma fold_rem_total_refuted : exists a b, in32 a /\ in32 b /\ fold_rem a b = CompilerPanics /\ rt_rem a b = Val 0.
Proof. exists MIN, (-1). unfold in32, MIN, MAX. repeat split; try lia; reflexivity. Qed.

(* ---- merge_binary_expression ---- *)
(* (x + c1) + c2  =>  x + (c1 + c2) : a ring identity, valid with wrap-around *)
Lemma wrap32_add_l a b : wrap32 (wrap32 a + b) = wrap32 (a + b).
Proof.
  unfold wrap32. f_equal.
  replace ((a + 2147483648) mod 4294967296 - 2147483648 + b + 2147483648)
    with ((a + 2147483648) mod 4294967296 + b) by lia.
  rewrite Z.add_mod_idemp_l by lia. f_equal. lia.
Qed.
Lemma wrap32_add_r a b : wrap32 (a + wrap32 b) = wrap32 (a + b).
Proof. rewrite (Z.add_comm a), wrap32_add_l. f_equal. lia. Qed.

Theorem merge_plus x c1 c2 : wrap32 (wrap32 (x + c1) + c2) = wrap32 (x + wrap32 (c1 + c2)).
Proof. rewrite wrap32_add_l, wrap32_add_r. f_equal. lia. Qed.

(* (x + c1) cmp c2  =>  x cmp (c2 - c1) : needs BOTH additions to stay in range *)
Theorem merge_cmp_ok c x c1 c2 : in32 (x + c1) -> in32 (c2 - c1) ->
  cmp_eval c (wrap32 (x + c1)) c2 = cmp_eval c x (wrap32 (c2 - c1)).
Proof.
  intros H1 H2. rewrite !wrap32_id by assumption.
  destruct c; cbn; unfold Z.gtb, Z.geb;
  repeat match goal with |- context [?a ?= ?b] => destruct (Z.compare_spec a b) end;
  repeat match goal with |- context [?a <? ?b] => destruct (Z.ltb_spec a b) end;
  repeat match goal with |- context [?a <=? ?b] => destruct (Z.leb_spec a b) end;
  repeat match goal with |- context [?a =? ?b] => destruct (Z.eqb_spec a b) end; cbn; try reflexivity; lia.
Qed.

(* the code checks neither; the second one is NOT an excluded run *)
Lemma merge_cmp_refuted : exists x c1 c2,
  in32 x /\ in32 c1 /\ in32 c2 /\ in32 (x + c1) /\
  cmp_eval LT (wrap32 (x + c1)) c2 <> cmp_eval LT x (wrap32 (c2 - c1)).
Proof. exists 5, (-1), MAX. unfold in32, MIN, MAX. repeat split; try lia. vm_compute. discriminate. Qed.

(* ---- trip count (analyze_number_of_iterations_to_break_less_than_guard) ---- *)
Definition trip_lt (i0 inc g : Z) : option Z :=
  if i0 >=? g then Some 0
  else if inc <=? 0 then None
  else let d := g - i0 in Some (d / inc + (if d mod inc =? 0 then 0 else 1)).

Theorem trip_lt_correct i0 inc g k : trip_lt i0 inc g = Some k ->
  0 <= k /\ i0 + inc * k >= g /\ (forall j, 0 <= j < k -> i0 + inc * j < g).
Proof.
  unfold trip_lt. destruct (i0 >=? g) eqn:E1.
  - intros [= <-]. repeat split; try lia.
  - destruct (inc <=? 0) eqn:E2; [discriminate|]. intros [= <-].
    assert (inc > 0) by lia. assert (g - i0 > 0) by lia.
    pose proof (Z.div_mod (g - i0) inc ltac:(lia)). pose proof (Z.mod_pos_bound (g - i0) inc ltac:(lia)).
    pose proof (Z.div_pos (g - i0) inc ltac:(lia) ltac:(lia)).
    destruct ((g - i0) mod inc =? 0) eqn:E3; (split; [lia|]); (split; [nia|]); intros j Hj; nia.
Qed.

(* GT is reduced to LT by negating all three operands, in i32 *)
Definition trip_gt_impl (i0 inc g : Z) : option Z := trip_lt (wrap32 (- i0)) (wrap32 (- inc)) (wrap32 (- g)).

Lemma trip_gt_refuted : exists i0 inc g k,
  in32 i0 /\ in32 inc /\ in32 g /\
  cmp_eval GT i0 g = false (* the loop body never runs *) /\ trip_gt_impl i0 inc g = Some k /\ k <> 0.
Proof. exists MIN, (-1), 5, 2147483643. unfold in32, MIN, MAX. repeat split; try lia; vm_compute; reflexivity. Qed.

(* ---- induction-variable elimination: j = m*i + c, guard i op g  ~~>  j < m*g + c ---- *)
Theorem iv_guard_lt m c i g : m > 0 -> cmp_eval LT i g = cmp_eval LT (m * i + c) (m * g + c).
Proof. intros Hm. cbn. destruct (Z.ltb_spec i g), (Z.ltb_spec (m * i + c) (m * g + c)); auto; nia. Qed.

(* the code emits LT whatever the original guard was *)
Lemma iv_guard_le_refuted : exists m c i g, m > 0 /\ cmp_eval LE i g <> cmp_eval LT (m * i + c) (m * g + c).
Proof. exists 3, 0, 10, 10. split; [lia|]. vm_compute. discriminate. Qed.
(* ... and whatever the sign of the multiplier *)
Lemma iv_guard_neg_refuted : exists m c i g, cmp_eval LT i g <> cmp_eval LT (m * i + c) (m * g + c).
Proof. exists (-1), 0, 1, 2. vm_compute. discriminate. Qed.

Print Assumptions merge_cmp_ok.
Print Assumptions trip_lt_correct.
