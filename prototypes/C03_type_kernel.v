(* Feasibility prototype for C03/C06/C13: the assignability kernel of
   type_system.rs (assignability_check_visit, contains_placeholder). *)
From Coq Require Import List Arith Bool Lia.
Import ListNotations.

(* every node carries a reason (location); verdicts must not depend on it *)
Inductive ty :=
| Any (r : nat) (placeholder : bool)
| Prim (r : nat) (k : nat)
| Generic (r : nat) (x : nat)
| Nominal (r : nat) (m id : nat) (statics : bool) (args : list ty)
| Fn (r : nat) (args : list ty) (ret : ty).

Section TyInd.
  Variable P : ty -> Prop.
  Hypothesis HAny : forall r b, P (Any r b).
  Hypothesis HPrim : forall r k, P (Prim r k).
  Hypothesis HGen : forall r x, P (Generic r x).
  Hypothesis HNom : forall r m id s args, Forall P args -> P (Nominal r m id s args).
  Hypothesis HFn : forall r args ret, Forall P args -> P ret -> P (Fn r args ret).
  Fixpoint ty_ind' (t : ty) : P t :=
    let go := fix go (l : list ty) : Forall P l :=
      match l with [] => Forall_nil _ | x :: xs => Forall_cons _ (ty_ind' x) (go xs) end in
    match t with
    | Any r b => HAny r b
    | Prim r k => HPrim r k
    | Generic r x => HGen r x
    | Nominal r m id s args => HNom r m id s args (go args)
    | Fn r args ret => HFn r args ret (go args) (ty_ind' ret)
    end.
End TyInd.

Definition all2b {A B} (f : A -> B -> bool) : list A -> list B -> bool :=
  fix go (l1 : list A) (l2 : list B) : bool :=
    match l1, l2 with
    | [], [] => true
    | a :: l1', b :: l2' => f a b && go l1' l2'
    | _, _ => false
    end.

(* assignability_check_visit, verdict only *)
Fixpoint assignable (l u : ty) {struct l} : bool :=
  match l, u with
  | Any _ _, _ => true
  | _, Any _ _ => true
  | Prim _ k1, Prim _ k2 => Nat.eqb k1 k2
  | Generic _ x1, Generic _ x2 => Nat.eqb x1 x2
  | Nominal _ m1 i1 s1 a1, Nominal _ m2 i2 s2 a2 =>
      Nat.eqb m1 m2 && Nat.eqb i1 i2 && Bool.eqb s1 s2 &&
      (fix go (l1 l2 : list ty) : bool :=
         match l1, l2 with
         | [], [] => true
         | a :: l1', b :: l2' => assignable a b && go l1' l2'
         | _, _ => false
         end) a1 a2
  | Fn _ a1 r1, Fn _ a2 r2 =>
      (fix go (l1 l2 : list ty) : bool :=
         match l1, l2 with
         | [], [] => true
         | a :: l1', b :: l2' => assignable a b && go l1' l2'
         | _, _ => false
         end) a1 a2 && assignable r1 r2
  | _, _ => false
  end.

Lemma assignable_nominal r1 m1 i1 s1 a1 r2 m2 i2 s2 a2 :
  assignable (Nominal r1 m1 i1 s1 a1) (Nominal r2 m2 i2 s2 a2) =
  Nat.eqb m1 m2 && Nat.eqb i1 i2 && Bool.eqb s1 s2 && all2b assignable a1 a2.
Proof. reflexivity. Qed.
Lemma assignable_fn r1 a1 t1 r2 a2 t2 :
  assignable (Fn r1 a1 t1) (Fn r2 a2 t2) = all2b assignable a1 a2 && assignable t1 t2.
Proof. reflexivity. Qed.

(* a type without `any` / placeholders *)
Fixpoint anyfree (t : ty) : bool :=
  match t with
  | Any _ _ => false
  | Prim _ _ | Generic _ _ => true
  | Nominal _ _ _ _ args => forallb anyfree args
  | Fn _ args ret => forallb anyfree args && anyfree ret
  end.

(* forget the reasons *)
Fixpoint erase (t : ty) : ty :=
  match t with
  | Any _ b => Any 0 b
  | Prim _ k => Prim 0 k
  | Generic _ x => Generic 0 x
  | Nominal _ m i s args => Nominal 0 m i s (map erase args)
  | Fn _ args ret => Fn 0 (map erase args) (erase ret)
  end.

(* spec.md 5.9: on any-free types assignability is structural identity *)
Theorem assignable_is_identity l : forall u,
  anyfree l = true -> anyfree u = true -> (assignable l u = true <-> erase l = erase u).
Proof.
  induction l as [r b|r k|r x|r m i s args IH|r args ret IH IHr] using ty_ind'; intros u Hl Hu; cbn in Hl; try discriminate.
  - destruct u; cbn in Hu |- *; try discriminate; try (split; [discriminate|intros E; inversion E]).
    rewrite Nat.eqb_eq. split; [intros ->; reflexivity|intros E; inversion E; reflexivity].
  - destruct u; cbn in Hu |- *; try discriminate; try (split; [discriminate|intros E; inversion E]).
    rewrite Nat.eqb_eq. split; [intros ->; reflexivity|intros E; inversion E; reflexivity].
  - destruct u as [| | |r2 m2 i2 s2 args2|]; cbn in Hu; try discriminate;
      try (cbn; split; [discriminate|intros E; inversion E]).
    rewrite assignable_nominal. cbn [erase].
    assert (Hargs : all2b assignable args args2 = true <-> map erase args = map erase args2).
    { clear -IH Hl Hu. revert args2 Hu. induction args as [|a args IHa]; intros [|b args2] Hu; cbn in *;
        try (split; [discriminate|intros E; inversion E]); try tauto.
      inversion IH as [|? ? Ha Hrest]; subst.
      apply andb_prop in Hl. destruct Hl as [Hl1 Hl2]. apply andb_prop in Hu. destruct Hu as [Hu1 Hu2].
      specialize (IHa Hrest Hl2 args2 Hu2). specialize (Ha b Hl1 Hu1).
      split.
      - intros E. apply andb_prop in E. destruct E as [E1 E2]. f_equal; tauto.
      - intros E. inversion E. apply andb_true_intro. split; tauto. }
    destruct (Nat.eqb_spec m m2), (Nat.eqb_spec i i2), (Bool.eqb_spec s s2); cbn;
      try (split; [discriminate|intros E; inversion E; congruence]).
    subst. rewrite Hargs. split; [intros ->; reflexivity|intros E; inversion E; reflexivity].
  - destruct u as [| | | |r2 args2 ret2]; cbn in Hu; try discriminate;
      try (cbn; split; [discriminate|intros E; inversion E]).
    rewrite assignable_fn. cbn [erase].
    apply andb_prop in Hl. destruct Hl as [Hl1 Hl2]. apply andb_prop in Hu. destruct Hu as [Hu1 Hu2].
    assert (Hargs : all2b assignable args args2 = true <-> map erase args = map erase args2).
    { clear -IH Hl1 Hu1. revert args2 Hu1. induction args as [|a args IHa]; intros [|b args2] Hu; cbn in *;
        try (split; [discriminate|intros E; inversion E]); try tauto.
      inversion IH as [|? ? Ha Hrest]; subst.
      apply andb_prop in Hl1. destruct Hl1 as [Hl1 Hl2]. apply andb_prop in Hu. destruct Hu as [Hu1 Hu2].
      specialize (IHa Hrest Hl2 args2 Hu2). specialize (Ha b Hl1 Hu1).
      split.
      - intros E. apply andb_prop in E. destruct E as [E1 E2]. f_equal; tauto.
      - intros E. inversion E. apply andb_true_intro. split; tauto. }
    specialize (IHr ret2 Hl2 Hu2).
    split.
    + intros E. apply andb_prop in E. destruct E as [E1 E2]. f_equal; tauto.
    + intros E. inversion E. apply andb_true_intro. split; tauto.
Qed.

(* C13: a verdict never depends on reasons (locations) *)
Fixpoint reposition (f : nat -> nat) (t : ty) : ty :=
  match t with
  | Any r b => Any (f r) b
  | Prim r k => Prim (f r) k
  | Generic r x => Generic (f r) x
  | Nominal r m i s args => Nominal (f r) m i s (map (reposition f) args)
  | Fn r args ret => Fn (f r) (map (reposition f) args) (reposition f ret)
  end.

Theorem assignable_reposition f g l : forall u, assignable (reposition f l) (reposition g u) = assignable l u.
Proof.
  induction l as [r b|r k|r x|r m i s args IH|r args ret IH IHr] using ty_ind'; intros u.
  - reflexivity.
  - destruct u; reflexivity.
  - destruct u; reflexivity.
  - destruct u as [| | |r2 m2 i2 s2 args2|]; try reflexivity.
    cbn [reposition]. rewrite !assignable_nominal. f_equal.
    revert args2. induction args as [|a args IHa]; intros [|b args2]; cbn; auto.
    inversion IH as [|? ? Ha Hrest]; subst. rewrite Ha. f_equal. apply IHa; auto.
  - destruct u as [| | | |r2 args2 ret2]; try reflexivity.
    cbn [reposition]. rewrite !assignable_fn. rewrite IHr. f_equal.
    revert args2. induction args as [|a args IHa]; intros [|b args2]; cbn; auto.
    inversion IH as [|? ? Ha Hrest]; subst. rewrite Ha. f_equal. apply IHa; auto.
Qed.

(* `any` really is both top and bottom, which is why it must not survive in an accepted program *)
Example any_is_top_and_bottom : forall t r b, assignable t (Any r b) = true /\ assignable (Any r b) t = true.
Proof. intros t r b. split; destruct t; reflexivity. Qed.

Print Assumptions assignable_is_identity.
Print Assumptions assignable_reposition.
