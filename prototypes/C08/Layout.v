(* Feasibility prototype for C08/C09: the layout engine of prettier.rs
   (generate_best_doc) never changes the non-blank content of a document,
   whatever the width. *)
From Coq Require Import List Arith Bool Lia Ascii String.
Import ListNotations.

Inductive doc :=
| Nil
| Concat (a b : doc)
| Nest (n : nat) (d : doc)
| Text (s : string)
| Line            (* space when flattened *)
| LineNil         (* nothing when flattened *)
| LineHard
| Union (a b : doc).

Inductive tok := TText (s : string) | TLine (indent : nat) (hard : bool).

(* characters that are not blanks *)
Definition is_blank (c : ascii) : bool := (c =? " ")%char || (c =? "010")%char.
Definition visible (s : string) : list ascii := filter (fun c => negb (is_blank c)) (list_ascii_of_string s).

Fixpoint content (d : doc) : list ascii :=
  match d with
  | Nil | Line | LineNil | LineHard => []
  | Concat a b => content a ++ content b
  | Nest _ d => content d
  | Text s => visible s
  | Union a _ => content a
  end.

Fixpoint wf (d : doc) : Prop :=
  match d with
  | Concat a b => wf a /\ wf b
  | Nest _ d => wf d
  | Union a b => wf a /\ wf b /\ content a = content b
  | _ => True
  end.

Definition tok_content (t : tok) : list ascii := match t with TText s => visible s | TLine _ _ => [] end.
Definition toks_content (ts : list tok) : list ascii := flat_map tok_content ts.
Definition work_content (l : list (nat * doc)) : list ascii := flat_map (fun p => content (snd p)) l.

Inductive res := Fits (ts : list tok) | NoFit | OutOfFuel.

(* generate_best_doc: `acc` is the collector in reverse order *)
Fixpoint gbd (fuel w consumed : nat) (enforce : bool) (l : list (nat * doc)) (acc : list tok) : res :=
  match fuel with
  | O => OutOfFuel
  | S f =>
      if enforce && (w <? consumed) then NoFit
      else
        match l with
        | [] => Fits (rev acc)
        | (i, d) :: rest =>
            match d with
            | Nil => gbd f w consumed enforce rest acc
            | Concat a b => gbd f w consumed enforce ((i, a) :: (i, b) :: rest) acc
            | Nest n d' => gbd f w consumed enforce ((i + n, d') :: rest) acc
            | Text s => gbd f w (consumed + String.length s) enforce rest (TText s :: acc)
            | Line | LineNil => gbd f w i false rest (TLine i false :: acc)
            | LineHard => gbd f w i false rest (TLine i true :: acc)
            | Union a b =>
                match gbd f w consumed true ((i, a) :: rest) acc with
                | Fits ts => Fits ts
                | NoFit => gbd f w consumed enforce ((i, b) :: rest) acc
                | OutOfFuel => OutOfFuel
                end
            end
        end
  end.

Definition layout (fuel w : nat) (d : doc) : res := gbd fuel w 0 false [(0, d)] [].

Lemma toks_content_app a b : toks_content (a ++ b) = toks_content a ++ toks_content b.
Proof. unfold toks_content. now rewrite flat_map_app. Qed.

Definition wfl (l : list (nat * doc)) : Prop := Forall (fun p => wf (snd p)) l.
Lemma wfl_cons i d l : wf d -> wfl l -> wfl ((i, d) :: l).
Proof. intros H1 H2. constructor; auto. Qed.

Theorem gbd_preserves_content : forall fuel w c e l acc ts,
  Forall (fun p => wf (snd p)) l ->
  gbd fuel w c e l acc = Fits ts -> toks_content ts = toks_content (rev acc) ++ work_content l.
Proof.
  induction fuel as [|fuel IH]; intros w c e l acc ts Hwf H; [discriminate|].
  cbn [gbd] in H. destruct (e && (w <? c)); [discriminate|].
  destruct l as [|[i d] rest].
  - inversion H; subst. cbn. now rewrite app_nil_r.
  - inversion Hwf as [|? ? Hd Hrest]; subst. cbn [snd] in Hd.
    destruct d as [|a b|n d'|s| | | |a b]; cbn [work_content flat_map snd content].
    + apply (IH _ _ _ _ _ _ Hrest H).
    + destruct Hd as [Ha Hb].
      rewrite (IH _ _ _ _ _ _ (wfl_cons _ _ _ Ha (wfl_cons _ _ _ Hb Hrest)) H).
      unfold work_content. cbn [flat_map snd]. rewrite <- !app_assoc. reflexivity.
    + cbn [wf] in Hd. rewrite (IH _ _ _ _ _ _ (wfl_cons _ _ _ Hd Hrest) H). reflexivity.
    + rewrite (IH _ _ _ _ _ _ Hrest H). cbn [rev]. rewrite toks_content_app. cbn. rewrite app_nil_r, <- app_assoc. reflexivity.
    + rewrite (IH _ _ _ _ _ _ Hrest H). cbn [rev]. rewrite toks_content_app. cbn. now rewrite app_nil_r.
    + rewrite (IH _ _ _ _ _ _ Hrest H). cbn [rev]. rewrite toks_content_app. cbn. now rewrite app_nil_r.
    + rewrite (IH _ _ _ _ _ _ Hrest H). cbn [rev]. rewrite toks_content_app. cbn. now rewrite app_nil_r.
    + destruct Hd as [Ha [Hb Hab]].
      destruct (gbd fuel w c true ((i, a) :: rest) acc) as [ts'| |] eqn:E; [|clear E|discriminate].
      * inversion H; subst ts'. rewrite (IH _ _ _ _ _ _ (wfl_cons _ _ _ Ha Hrest) E). reflexivity.
      * rewrite (IH _ _ _ _ _ _ (wfl_cons _ _ _ Hb Hrest) H). cbn [work_content flat_map snd]. now rewrite Hab.
Qed.

(* so two different widths give the same visible content *)
Corollary layout_width_independent fuel1 fuel2 w1 w2 d ts1 ts2 :
  wf d -> layout fuel1 w1 d = Fits ts1 -> layout fuel2 w2 d = Fits ts2 -> toks_content ts1 = toks_content ts2.
Proof.
  intros Hwf H1 H2. unfold layout in *.
  rewrite (gbd_preserves_content _ _ _ _ _ _ _ (wfl_cons 0 _ _ Hwf (Forall_nil _)) H1).
  rewrite (gbd_preserves_content _ _ _ _ _ _ _ (wfl_cons 0 _ _ Hwf (Forall_nil _)) H2). reflexivity.
Qed.

(* the top-level call never reports "does not fit" *)
Lemma gbd_no_enforce_fits : forall fuel w c l acc, gbd fuel w c false l acc <> NoFit.
Proof.
  induction fuel as [|fuel IH]; intros w c l acc; cbn [gbd]; [discriminate|].
  cbn [andb]. destruct l as [|[i d] rest]; [discriminate|].
  destruct d; try apply IH.
  destruct (gbd fuel w c true ((i, d1) :: rest) acc); [discriminate|apply IH|discriminate].
Qed.

(* flatten / group of the paper, as in prettier.rs *)
Fixpoint flatten (d : doc) : option doc :=
  match d with
  | Nil => Some Nil
  | Concat a b => match flatten a, flatten b with Some a', Some b' => Some (Concat a' b') | _, _ => None end
  | Nest n d => option_map (Nest n) (flatten d)
  | Text s => Some (Text s)
  | Line => Some (Text " ")
  | LineNil => Some Nil
  | LineHard => None
  | Union a _ => flatten a
  end.
Definition group (d : doc) : doc := match flatten d with Some f => Union f d | None => d end.

Lemma flatten_content d : forall f, flatten d = Some f -> content f = content d /\ (wf d -> wf f).
Proof.
  induction d; intros f H; cbn in H; try (inversion H; subst; cbn; auto; fail).
  - destruct (flatten d1) as [a'|]; [|discriminate]. destruct (flatten d2) as [b'|]; [|discriminate].
    inversion H; subst. destruct (IHd1 _ eq_refl), (IHd2 _ eq_refl). cbn. split; [congruence|tauto].
  - destruct (flatten d) as [d'|]; [|discriminate]. inversion H; subst. destruct (IHd _ eq_refl). cbn. auto.
  - destruct (IHd1 _ H). cbn. split; [auto|tauto].
Qed.

Theorem group_wf d : wf d -> wf (group d).
Proof.
  intros H. unfold group. destruct (flatten d) as [f|] eqn:E; auto.
  destruct (flatten_content d f E) as [Hc Hw]. cbn. auto.
Qed.

Print Assumptions layout_width_independent.
Print Assumptions group_wf.
