(* Feasibility prototype for C08: print/parse round trip for the binary/unary
   expression fragment, against the parser's real level structure
   (source_parser.rs 792-1020):  || < && < cmp < + - < * / % < :: < unary < base *)
From Coq Require Import List Arith Bool Lia.
Import ListNotations.

Inductive bop := Or | And | Lt | Le | Gt | Ge | Eq | Ne | Plus | Minus | Mul | Div | Mod | Concat.
Definition plevel (o : bop) : nat :=
  match o with
  | Or => 0 | And => 1 | Lt | Le | Gt | Ge | Eq | Ne => 2
  | Plus | Minus => 3 | Mul | Div | Mod => 4 | Concat => 5
  end.
Lemma plevel_le5 o : plevel o <= 5. Proof. destruct o; cbn; lia. Qed.

Inductive uop := Not | Neg.
Inductive expr := Atom (n : nat) | Un (u : uop) (e : expr) | Bin (o : bop) (e1 e2 : expr).
Inductive tok := TAtom (n : nat) | TOp (o : bop) | TBang | LP | RP.

Definition utok (u : uop) : tok := match u with Not => TBang | Neg => TOp Minus end.

(* ---------------- parser ---------------- *)
Inductive mode := MLevel (k : nat) | MLoop (k : nat) (e : expr).

Fixpoint go (fuel : nat) (m : mode) (ts : list tok) : option (expr * list tok) :=
  match fuel with
  | O => None
  | S f =>
      match m with
      | MLevel k =>
          if k <=? 5 then
            match go f (MLevel (S k)) ts with
            | Some (e, ts') => go f (MLoop k e) ts'
            | None => None
            end
          else if k =? 6 then
            match ts with
            | TBang :: ts' =>
                match go f (MLevel 7) ts' with Some (e, r) => Some (Un Not e, r) | None => None end
            | TOp Minus :: ts' =>
                match go f (MLevel 7) ts' with Some (e, r) => Some (Un Neg e, r) | None => None end
            | _ => go f (MLevel 7) ts
            end
          else
            match ts with
            | TAtom n :: ts' => Some (Atom n, ts')
            | LP :: ts' =>
                match go f (MLevel 0) ts' with
                | Some (e, RP :: r) => Some (e, r)
                | _ => None
                end
            | _ => None
            end
      | MLoop k e =>
          match ts with
          | TOp o :: ts' =>
              if plevel o =? k then
                match go f (MLevel (S k)) ts' with
                | Some (e2, r) => go f (MLoop k (Bin o e e2)) r
                | None => None
                end
              else Some (e, ts)
          | _ => Some (e, ts)
          end
      end
  end.

Definition parse_expr (fuel : nat) (ts : list tok) : option expr :=
  match go fuel (MLevel 0) ts with Some (e, []) => Some e | _ => None end.

(* ---------------- ideal printer for this grammar ---------------- *)
Definition level_of (e : expr) : nat :=
  match e with Atom _ => 7 | Un _ _ => 6 | Bin o _ _ => plevel o end.

Fixpoint pr (k : nat) (e : expr) : list tok :=
  let body :=
    match e with
    | Atom n => [TAtom n]
    | Un u a => utok u :: pr 7 a
    | Bin o a b => pr (plevel o) a ++ TOp o :: pr (S (plevel o)) b
    end in
  if level_of e <? k then LP :: body ++ [RP] else body.

Definition body (e : expr) : list tok :=
  match e with
  | Atom n => [TAtom n]
  | Un u a => utok u :: pr 7 a
  | Bin o a b => pr (plevel o) a ++ TOp o :: pr (S (plevel o)) b
  end.

Lemma pr_unfold k e : pr k e = if level_of e <? k then LP :: body e ++ [RP] else body e.
Proof. destruct e; reflexivity. Qed.

(* ---------------- fuel monotonicity ---------------- *)
Lemma go_mono : forall f m ts r, go f m ts = Some r -> forall f', f <= f' -> go f' m ts = Some r.
Proof.
  induction f as [|f IH]; intros m ts r H f' Hle; [discriminate|].
  destruct f' as [|f']; [lia|]. assert (Hle' : f <= f') by lia.
  cbn [go] in *. destruct m as [k|k e].
  - destruct (k <=? 5).
    + destruct (go f (MLevel (S k)) ts) as [[e ts']|] eqn:E; [|discriminate].
      rewrite (IH _ _ _ E f' Hle'). eauto.
    + destruct (k =? 6).
      * destruct ts as [|[n|o| | |] ts']; eauto.
        -- destruct o; eauto.
           destruct (go f (MLevel 7) ts') as [[e r']|] eqn:E; [|discriminate].
           rewrite (IH _ _ _ E f' Hle'). assumption.
        -- destruct (go f (MLevel 7) ts') as [[e r']|] eqn:E; [|discriminate].
           rewrite (IH _ _ _ E f' Hle'). assumption.
      * destruct ts as [|[n|o| | |] ts']; eauto.
        destruct (go f (MLevel 0) ts') as [[e r']|] eqn:E; [|discriminate].
        rewrite (IH _ _ _ E f' Hle'). assumption.
  - destruct ts as [|[n|o| | |] ts']; eauto.
    destruct (plevel o =? k); eauto.
    destruct (go f (MLevel (S k)) ts') as [[e2 r']|] eqn:E; [|discriminate].
    rewrite (IH _ _ _ E f' Hle'). eauto.
Qed.

Definition parses (m : mode) (ts : list tok) (r : expr * list tok) : Prop :=
  exists f, go f m ts = Some r.

(* what may follow an expression parsed at level k: not an operator of level >= k *)
Definition follow_ok (k : nat) (ts : list tok) : Prop :=
  match ts with TOp o :: _ => plevel o < k | _ => True end.

Lemma follow_ok_mono k k' ts : k <= k' -> follow_ok k ts -> follow_ok k' ts.
Proof. destruct ts as [|[]]; cbn; auto. intros; lia. Qed.

(* the loop at level k stops at once on an admissible follower *)
Lemma loop_exit k e ts : follow_ok k ts -> parses (MLoop k e) ts (e, ts).
Proof.
  intros H. exists 1. cbn. destruct ts as [|[n|o| | |] ts']; auto.
  cbn in H. destruct (Nat.eqb_spec (plevel o) k); [lia|reflexivity].
Qed.

(* composing: level k = level k+1 then loop k *)
Lemma level_step k ts e ts' r : k <= 5 ->
  parses (MLevel (S k)) ts (e, ts') -> parses (MLoop k e) ts' r -> parses (MLevel k) ts r.
Proof.
  intros Hk [f1 H1] [f2 H2]. exists (S (max f1 f2)). cbn [go].
  destruct (Nat.leb_spec k 5); [|lia].
  rewrite (go_mono _ _ _ _ H1 (max f1 f2)) by lia.
  apply (go_mono _ _ _ _ H2). lia.
Qed.

Lemma loop_step k o e ts e2 ts' r : plevel o = k ->
  parses (MLevel (S k)) ts (e2, ts') -> parses (MLoop k (Bin o e e2)) ts' r ->
  parses (MLoop k e) (TOp o :: ts) r.
Proof.
  intros Hk [f1 H1] [f2 H2]. exists (S (max f1 f2)). cbn [go].
  rewrite Hk, Nat.eqb_refl.
  rewrite (go_mono _ _ _ _ H1 (max f1 f2)) by lia.
  apply (go_mono _ _ _ _ H2). lia.
Qed.

(* climbing down from level k+d to level k when the follower lets every
   intermediate loop stop *)
Lemma climb : forall d k ts e ts', k + d <= 6 ->
  parses (MLevel (k + d)) ts (e, ts') -> follow_ok k ts' -> parses (MLevel k) ts (e, ts').
Proof.
  induction d as [|d IH]; intros k ts e ts' Hk Hp Hf.
  - now rewrite Nat.add_0_r in Hp.
  - apply level_step with (e := e) (ts' := ts'); [lia| |apply loop_exit; assumption].
    apply (IH (S k)); [lia| |eapply follow_ok_mono; [|eassumption]; lia].
    now replace (S k + d) with (k + S d) by lia.
Qed.

Lemma six_of_seven ts r : parses (MLevel 7) ts r -> parses (MLevel 6) ts r.
Proof.
  intros [f H]. exists (S f). destruct f as [|f]; [discriminate|].
  cbn [go] in H. cbn [Nat.leb Nat.eqb] in H.
  destruct ts as [|[n|o| | |] ts']; try discriminate.
  - cbn [go Nat.leb Nat.eqb]. inversion H; subst. reflexivity.
  - change (go (S (S f)) (MLevel 6) (LP :: ts')) with (go (S f) (MLevel 7) (LP :: ts')).
    cbn [go Nat.leb Nat.eqb]. exact H.
Qed.

Lemma follow_ok_67 k ts : 6 <= k -> follow_ok k ts.
Proof. intros H. destruct ts as [|[n|o| | |] ts']; cbn; auto. pose proof (plevel_le5 o). lia. Qed.

Lemma level_of_bound e : level_of e <= 7.
Proof. destruct e; cbn; try lia. pose proof (plevel_le5 o). lia. Qed.

(* parse from any level k <= level_of e, given a parse at level_of e *)
Lemma descend e k ts0 ts : k <= level_of e ->
  parses (MLevel (level_of e)) ts0 (e, ts) -> follow_ok k ts -> parses (MLevel k) ts0 (e, ts).
Proof.
  intros Hk Hp Hf. pose proof (level_of_bound e) as Hb.
  destruct (Nat.eq_dec (level_of e) 7) as [E7|N7].
  - (* base: 7 -> 6 -> k *)
    rewrite E7 in *.
    destruct (Nat.eq_dec k 7); [subst; assumption|].
    apply six_of_seven in Hp.
    destruct (Nat.eq_dec k 6); [subst; assumption|].
    apply (climb (6 - k) k); [lia| |assumption]. now replace (k + (6 - k)) with 6 by lia.
  - apply (climb (level_of e - k) k); [lia| |assumption].
    now replace (k + (level_of e - k)) with (level_of e) by lia.
Qed.

Definition A (e : expr) : Prop :=
  forall k ts, k <= 7 -> follow_ok k ts -> parses (MLevel k) (pr k e ++ ts) (e, ts).
Definition L' (a : expr) : Prop :=
  forall j ts r, j <= 5 -> follow_ok (S j) ts -> parses (MLoop j a) ts r -> parses (MLevel j) (pr j a ++ ts) r.
Definition A0 (e : expr) : Prop :=
  forall ts, follow_ok (level_of e) ts -> parses (MLevel (level_of e)) (body e ++ ts) (e, ts).

Lemma follow_ok_RP k ts : follow_ok k (RP :: ts).
Proof. exact I. Qed.

Lemma paren_parse e ts : parses (MLevel 0) (body e ++ RP :: ts) (e, RP :: ts) ->
  parses (MLevel 7) (LP :: body e ++ RP :: ts) (e, ts).
Proof.
  intros [f H]. exists (S f). cbn [go Nat.leb Nat.eqb]. rewrite H. reflexivity.
Qed.

Lemma A_of_A0 e : A0 e -> A e.
Proof.
  intros H0 k ts Hk Hf. rewrite pr_unfold.
  assert (Hunp : forall k' ts', k' <= level_of e -> follow_ok k' ts' ->
                 parses (MLevel k') (body e ++ ts') (e, ts')).
  { intros k' ts' Hk' Hf'. apply descend; auto. apply H0.
    eapply follow_ok_mono; eauto. }
  destruct (Nat.ltb_spec (level_of e) k) as [Hlt|Hge].
  - (* parenthesised *)
    assert (H7 : parses (MLevel 7) ((LP :: body e ++ [RP]) ++ ts) (e, ts)).
    { cbn [app]. rewrite <- app_assoc. cbn [app]. apply paren_parse.
      apply Hunp; [lia|apply follow_ok_RP]. }
    destruct (Nat.eq_dec k 7); [subst; assumption|].
    apply six_of_seven in H7.
    destruct (Nat.eq_dec k 6); [subst; assumption|].
    apply (climb (6 - k) k); [lia| |assumption]. now replace (k + (6 - k)) with 6 by lia.
  - apply Hunp; auto.
Qed.

Lemma pr_noparen k e : k <= level_of e -> pr k e = body e.
Proof. intros H. rewrite pr_unfold. destruct (Nat.ltb_spec (level_of e) k); [lia|reflexivity]. Qed.

Lemma pr_paren_same k k' e : level_of e < k -> level_of e < k' -> pr k e = pr k' e.
Proof.
  intros H H'. rewrite !pr_unfold.
  destruct (Nat.ltb_spec (level_of e) k), (Nat.ltb_spec (level_of e) k'); try lia. reflexivity.
Qed.

Lemma unary_parse u a ts : parses (MLevel 7) (pr 7 a ++ ts) (a, ts) ->
  parses (MLevel 6) (utok u :: pr 7 a ++ ts) (Un u a, ts).
Proof.
  intros [f H]. exists (S f). cbn [go Nat.leb Nat.eqb]. destruct u; cbn [utok]; rewrite H; reflexivity.
Qed.

Theorem A_L'_all : forall e, A e /\ L' e.
Proof.
  induction e as [n|u a [IHA IHL]|o a [IHAa IHLa] b [IHAb IHLb]].
  - (* Atom *)
    assert (HA : A (Atom n)).
    { apply A_of_A0. intros ts _. exists 1. reflexivity. }
    split; auto. intros j ts r Hj Hf Hloop.
    apply level_step with (e := Atom n) (ts' := ts); auto.
    rewrite (pr_noparen j) by (cbn; lia). rewrite <- (pr_noparen (S j) (Atom n)) by (cbn; lia).
    apply HA; [lia|assumption].
  - (* Un *)
    assert (HA : A (Un u a)).
    { apply A_of_A0. intros ts _. cbn [level_of body]. cbn [app].
      apply unary_parse. apply IHA; [lia|apply follow_ok_67; lia]. }
    split; auto. intros j ts r Hj Hf Hloop.
    apply level_step with (e := Un u a) (ts' := ts); auto.
    rewrite (pr_noparen j) by (cbn; lia). rewrite <- (pr_noparen (S j) (Un u a)) by (cbn; lia).
    apply HA; [lia|assumption].
  - (* Bin *)
    pose proof (plevel_le5 o) as Ho.
    assert (H0 : A0 (Bin o a b)).
    { intros ts Hf. cbn [level_of body] in *. rewrite <- app_assoc. cbn [app].
      apply IHLa; [lia|cbn; lia|].
      eapply loop_step; [reflexivity| |apply loop_exit; exact Hf].
      apply IHAb; [lia|]. eapply follow_ok_mono; [|exact Hf]. lia. }
    assert (HA : A (Bin o a b)) by (apply A_of_A0; exact H0).
    split; auto. intros j ts r Hj Hf Hloop.
    destruct (Nat.eq_dec (plevel o) j) as [E|N].
    + (* same level: continue the left-associative chain *)
      subst j. rewrite (pr_noparen (plevel o)) by (cbn; lia). cbn [body].
      rewrite <- app_assoc. cbn [app].
      apply IHLa; [lia|cbn; lia|].
      eapply loop_step; [reflexivity| |exact Hloop].
      apply IHAb; [lia|assumption].
    + apply level_step with (e := Bin o a b) (ts' := ts); auto.
      assert (E : pr j (Bin o a b) = pr (S j) (Bin o a b)).
      { destruct (Nat.ltb_spec (plevel o) j).
        - apply pr_paren_same; cbn; lia.
        - rewrite !pr_noparen by (cbn; lia). reflexivity. }
      rewrite E. apply HA; [lia|assumption].
Qed.

Theorem roundtrip e : exists fuel, parse_expr fuel (pr 0 e) = Some e.
Proof.
  destruct (A_L'_all e) as [HA _].
  destruct (HA 0 [] ltac:(lia) I) as [f H]. rewrite app_nil_r in H.
  exists f. unfold parse_expr. rewrite H. reflexivity.
Qed.

Print Assumptions roundtrip.
