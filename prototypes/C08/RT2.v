(* C08 prototype, part 2: the implementation's parenthesisation rule
   (source_printer.rs 217-234, 605-676 with the precedence table of source.rs),
   compared decision by decision with the ideal printer of C08_roundtrip_ideal.v *)
From Coq Require Import List Arith Bool Lia.
Import ListNotations.
Require Import RT.

(* printer-side precedence (bigger = looser), as returned by E::precedence() *)
Definition oprec (o : bop) : nat :=
  match o with
  | Mul | Div | Mod => 0 | Plus | Minus | Concat => 1
  | Lt | Le | Gt | Ge | Eq | Ne => 2 | And => 3 | Or => 4
  end.
Definition pprec (e : expr) : nat :=
  match e with Atom _ => 0 | Un _ _ => 2 | Bin o _ _ => 4 + oprec o end.

Definition non_comm (o : bop) : bool := match o with Minus | Div | Mod => true | _ => false end.

Fixpoint impl (e : expr) : list tok :=
  let sub := fun (p : nat) (eq : bool) (c : expr) (body : list tok) =>
               if (if eq then p <=? pprec c else p <? pprec c) then LP :: body ++ [RP] else body in
  match e with
  | Atom n => [TAtom n]
  | Un u a => utok u :: sub 2 false a (impl a)
  | Bin o a b =>
      let p := 4 + oprec o in
      if pprec a =? p then impl a ++ TOp o :: sub p true b (impl b)
      else if (pprec b =? p) && negb (non_comm o) then sub p true a (impl a) ++ TOp o :: impl b
      else sub p true a (impl a) ++ TOp o :: sub p true b (impl b)
  end.

(* does the implementation take the same decisions as the ideal printer at every node? *)
Fixpoint agree (e : expr) : bool :=
  match e with
  | Atom _ => true
  | Un _ a => agree a && Bool.eqb (2 <? pprec a) (level_of a <? 7)
  | Bin o a b =>
      let p := 4 + oprec o in
      agree a && agree b &&
      (* left operand *)
      Bool.eqb (if pprec a =? p then false else p <=? pprec a) (level_of a <? plevel o) &&
      (* right operand *)
      Bool.eqb (if pprec a =? p then p <=? pprec b
                else if (pprec b =? p) && negb (non_comm o) then false else p <=? pprec b)
               (level_of b <? S (plevel o))
  end.

Lemma pr0_body e : pr 0 e = body e.
Proof. rewrite pr_unfold. reflexivity. Qed.

Theorem impl_ideal e : agree e = true -> impl e = body e.
Proof.
  induction e as [n|u a IH|o a IHa b IHb]; intros H; cbn [agree] in H.
  - reflexivity.
  - apply andb_prop in H. destruct H as [Ha Hd]. apply eqb_prop in Hd.
    cbn [impl body]. rewrite (IH Ha). rewrite pr_unfold. rewrite <- Hd. reflexivity.
  - apply andb_prop in H. destruct H as [H Hr]. apply andb_prop in H. destruct H as [H Hl].
    apply andb_prop in H. destruct H as [Ha Hb]. apply eqb_prop in Hl. apply eqb_prop in Hr.
    cbn [impl body]. rewrite (IHa Ha), (IHb Hb). rewrite !pr_unfold. rewrite <- Hl, <- Hr.
    destruct (pprec a =? 4 + oprec o); [reflexivity|].
    destruct ((pprec b =? 4 + oprec o) && negb (non_comm o)); reflexivity.
Qed.

Corollary impl_roundtrip e : agree e = true -> exists fuel, parse_expr fuel (impl e) = Some e.
Proof. intros H. rewrite (impl_ideal e H), <- pr0_body. apply roundtrip. Qed.

(* ---- the known classes, each with a concrete witness on which the
        implementation's output parses to a different tree or not at all ---- *)
Definition a0 := Atom 0. Definition a1 := Atom 1. Definition a2 := Atom 2.

(* K1: right operand of equal precedence under a "commutative" parent:  a * (b / c)  ->  a * b / c *)
Lemma K1_witness : agree (Bin Mul a0 (Bin Div a1 a2)) = false /\
  parse_expr 40 (impl (Bin Mul a0 (Bin Div a1 a2))) = Some (Bin Div (Bin Mul a0 a1) a2).
Proof. split; vm_compute; reflexivity. Qed.
(*     f == (x < y)  ->  f == x < y *)
Lemma K1_witness_cmp : parse_expr 40 (impl (Bin Eq a0 (Bin Lt a1 a2))) = Some (Bin Lt (Bin Eq a0 a1) a2).
Proof. vm_compute; reflexivity. Qed.
(* K2: unary under unary:  !(!x)  ->  !!x, which the parser rejects *)
Lemma K2_witness : agree (Un Not (Un Not a0)) = false /\ forall fuel, parse_expr fuel (impl (Un Not (Un Not a0))) = None.
Proof.
  split; [vm_compute; reflexivity|]. intros fuel. unfold parse_expr.
  do 9 (destruct fuel as [|fuel]; [reflexivity|]). vm_compute. reflexivity.
Qed.
(* K3: `::` is level 5 for the printer's table but binds tighter than `*` in the parser:  (a + b) :: c  ->  a + b :: c *)
Lemma K3_witness : agree (Bin Concat (Bin Plus a0 a1) a2) = false /\
  parse_expr 40 (impl (Bin Concat (Bin Plus a0 a1) a2)) = Some (Bin Plus a0 (Bin Concat a1 a2)).
Proof. split; vm_compute; reflexivity. Qed.

(* sanity: the usual shapes agree *)
Example agree_left_assoc : agree (Bin Minus (Bin Minus a0 a1) a2) = true. Proof. reflexivity. Qed.
Example agree_right_paren : agree (Bin Minus a0 (Bin Minus a1 a2)) = true. Proof. reflexivity. Qed.
Example agree_mixed : agree (Bin Or (Bin And a0 (Un Not a1)) (Bin Lt (Bin Plus a0 (Bin Mul a1 a2)) a2)) = true. Proof. reflexivity. Qed.

Print Assumptions impl_roundtrip.
