(* Feasibility prototype for C10: incremental recheck = from-scratch analysis,
   for update / remove, relative to a locality hypothesis on the checker. *)
From Coq Require Import List Bool Relations Relation_Operators Operators_Properties.
Import ListNotations.

Section Server.
  Variable M : Type.
  Variable M_eqb : M -> M -> bool.
  Hypothesis M_eqb_spec : forall a b, reflect (a = b) (M_eqb a b).
  Variables Content Sig Diag : Type.

  (* oracles: the real parser / signature builder / checker *)
  Variable imports : M -> Content -> list M.
  Variable sig_of : M -> Content -> Sig.
  Variable refs : Sig -> list M.
  Variable check : M -> Content -> (M -> option Sig) -> list Diag.

  (* H3/H-refs: a signature only mentions modules its module imports *)
  Hypothesis refs_imports : forall m c y, In y (refs (sig_of m c)) -> In y (imports m c).
  (* H1: the checker reads the global signature only through the closure of what it can name *)
  Hypothesis check_local : forall m c (G G' : M -> option Sig) (S : M -> Prop),
    S m ->
    (forall y, In y (imports m c) -> S y) ->
    (forall x sg y, S x -> G x = Some sg -> In y (refs sg) -> S y) ->
    (forall x, S x -> G x = G' x) ->
    check m c G = check m c G'.

  Definition sources := M -> option Content.
  Definition G_of (src : sources) : M -> option Sig :=
    fun m => match src m with Some c => Some (sig_of m c) | None => None end.
  Definition fresh (src : sources) (m : M) : list Diag :=
    match src m with Some c => check m c (G_of src) | None => [] end.

  Definition edge (src : sources) (x y : M) : Prop := exists c, src x = Some c /\ In y (imports x c).
  Definition reach (src : sources) : M -> M -> Prop := clos_refl_trans M (edge src).

  Definition mem (m : M) (l : list M) : bool := existsb (M_eqb m) l.
  Lemma mem_spec m l : reflect (In m l) (mem m l).
  Proof.
    unfold mem. destruct (existsb (M_eqb m) l) eqn:E; constructor.
    - apply existsb_exists in E. destruct E as [x [H1 H2]]. destruct (M_eqb_spec m x); [subst; auto|discriminate].
    - intros H. assert (existsb (M_eqb m) l = true); [|congruence].
      apply existsb_exists. exists m; split; auto. destruct (M_eqb_spec m m); auto.
  Qed.

  (* if a path from m reaches the dirty set in the old graph, it reaches it in any graph
     that agrees with the old one outside the dirty set (cut at the first dirty node) *)
  Lemma first_hit (src src' : sources) (D : list M) :
    (forall m, ~ In m D -> src' m = src m) ->
    forall m x, reach src m x -> In x D -> exists d, In d D /\ reach src' m d.
  Proof.
    intros Hagree m x Hr. apply clos_rt_rt1n in Hr.
    induction Hr as [m|m y x Hxy Hr IH]; intros Hx.
    - exists m; split; [auto|apply rt_refl].
    - destruct (mem_spec m D) as [Hm|Hm].
      + exists m; split; [auto|apply rt_refl].
      + destruct (IH Hx) as [d [Hd Hrd]]. exists d; split; auto.
        eapply rt_trans; [apply rt_step|exact Hrd].
        destruct Hxy as [c [Hc Hin]]. exists c. rewrite (Hagree m Hm). auto.
  Qed.

  (* the closure of m in graph src is closed under what the checker may look at *)
  Lemma reach_closed (src : sources) m c : src m = Some c ->
    reach src m m /\
    (forall y, In y (imports m c) -> reach src m y) /\
    (forall x sg y, reach src m x -> G_of src x = Some sg -> In y (refs sg) -> reach src m y).
  Proof.
    intros Hc. split; [apply rt_refl|]. split.
    - intros y Hy. apply rt_step. exists c; auto.
    - intros x sg y Hx Hg Hy. unfold G_of in Hg. destruct (src x) as [cx|] eqn:Ex; [|discriminate].
      inversion Hg; subst. eapply rt_trans; [exact Hx|]. apply rt_step. exists cx. split; [auto|now apply refs_imports].
  Qed.

  (* the state the server keeps *)
  Record state := { sigs : M -> option Sig; errs : M -> list Diag }.
  Definition Inv (src : sources) (st : state) : Prop :=
    (forall m, sigs st m = G_of src m) /\ (forall m, errs st m = fresh src m).

  (* a diagnostics-preservation lemma shared by update and remove:
     src' agrees with src outside D, the graph used for invalidation is src_g (old or new),
     and R over-approximates "reaches D in src_g" *)
  Lemma unaffected_same (src src' : sources) (D : list M) (R : M -> bool) :
    (forall m, ~ In m D -> src' m = src m) ->
    (forall m, (exists d, In d D /\ reach src m d) -> R m = true) ->
    forall m, R m = false -> fresh src' m = fresh src m.
  Proof.
    intros Hagree HR m Hm.
    assert (HmD : ~ In m D).
    { intros H. rewrite HR in Hm; [discriminate|]. exists m; split; auto. apply rt_refl. }
    unfold fresh. rewrite (Hagree m HmD). destruct (src m) as [c|] eqn:Ec; auto.
    symmetry. destruct (reach_closed src m c Ec) as [H1 [H2 H3]].
    apply (check_local m c (G_of src) (G_of src') (reach src m)); auto.
    intros x Hx. unfold G_of. rewrite Hagree; auto.
    intros HxD. rewrite HR in Hm; [discriminate|]. exists x; auto.
  Qed.

  (* ---- update: dirty set = updated modules, invalidation computed on the NEW graph ---- *)
  Fixpoint find (m : M) (U : list (M * Content)) : option Content :=
    match U with [] => None | (m', c) :: U' => if M_eqb m m' then Some c else find m U' end.

  Definition src_update (src : sources) (U : list (M * Content)) : sources :=
    fun m => match find m U with Some c => Some c | None => src m end.

  Lemma find_none m U : find m U = None -> ~ In m (map fst U).
  Proof.
    induction U as [|[m' c] U IH]; cbn; auto. destruct (M_eqb_spec m m'); [discriminate|].
    intros H [E|Hin]; [congruence|]. now apply IH.
  Qed.

  Definition do_update (src : sources) (st : state) (U : list (M * Content)) (R : M -> bool) : state :=
    let src' := src_update src U in
    let sigs' := fun m => match find m U with Some c => Some (sig_of m c) | None => sigs st m end in
    {| sigs := sigs';
       errs := fun m => if R m then match src' m with Some c => check m c sigs' | None => [] end
                        else errs st m |}.

  Lemma check_ext m c G G' : (forall x, G x = G' x) -> check m c G = check m c G'.
  Proof.
    intros H. apply (check_local m c G G' (fun _ => True)); auto.
  Qed.

  Theorem update_ok src st U R :
    Inv src st ->
    (forall m, (exists d, In d (map fst U) /\ reach (src_update src U) m d) -> R m = true) ->
    Inv (src_update src U) (do_update src st U R).
  Proof.
    intros [Hs He] HR. set (src' := src_update src U). set (D := map fst U).
    assert (Hagree : forall m, ~ In m D -> src' m = src m).
    { intros m Hm. unfold src', src_update. destruct (find m U) eqn:E; auto.
      exfalso. apply Hm. clear -E M_eqb_spec. induction U as [|[m' c'] U IH]; cbn in *; [discriminate|].
      destruct (M_eqb_spec m m'); [left; auto|right; auto]. }
    assert (Hsigs : forall m, sigs (do_update src st U R) m = G_of src' m).
    { intros m. cbn. unfold G_of, src', src_update. destruct (find m U); auto. rewrite Hs. reflexivity. }
    split; [exact Hsigs|]. intros m. cbn [errs do_update]. fold src'.
    destruct (R m) eqn:Rm.
    - unfold fresh. destruct (src' m); auto. apply check_ext. intros x. apply (Hsigs x).
    - rewrite He. symmetry.
      (* invalidation used the new graph: transport "reaches D" from old to new *)
      apply (unaffected_same src src' D R); auto.
      intros m0 [d [Hd Hr]]. apply HR.
      eapply (first_hit src src' D); eauto.
  Qed.

  (* ---- remove: dirty set = removed modules, invalidation computed on the OLD graph ---- *)
  Definition src_remove (src : sources) (D : list M) : sources :=
    fun m => if mem m D then None else src m.

  Definition do_remove (src : sources) (st : state) (D : list M) (R : M -> bool) : state :=
    let src' := src_remove src D in
    let sigs' := fun m => if mem m D then None else sigs st m in
    {| sigs := sigs';
       errs := fun m => if R m then match src' m with Some c => check m c sigs' | None => [] end
                        else errs st m |}.

  Theorem remove_ok src st D R :
    Inv src st ->
    (forall m, (exists d, In d D /\ reach src m d) -> R m = true) ->
    Inv (src_remove src D) (do_remove src st D R).
  Proof.
    intros [Hs He] HR. set (src' := src_remove src D).
    assert (Hagree : forall m, ~ In m D -> src' m = src m).
    { intros m Hm. unfold src', src_remove. destruct (mem_spec m D); tauto. }
    assert (Hsigs : forall m, sigs (do_remove src st D R) m = G_of src' m).
    { intros m. cbn. unfold G_of, src', src_remove. destruct (mem m D); auto. rewrite Hs. reflexivity. }
    split; [exact Hsigs|]. intros m. cbn [errs do_remove]. fold src'.
    destruct (R m) eqn:Rm.
    - unfold fresh. destruct (src' m); auto. apply check_ext. intros x. apply (Hsigs x).
    - rewrite He. symmetry. apply (unaffected_same src src' D R); auto.
  Qed.

  (* ---- histories ---- *)
  Inductive op :=
  | Update (U : list (M * Content)) (R : M -> bool)
  | Remove (D : list M) (R : M -> bool).

  Definition step (p : sources * state) (o : op) : sources * state :=
    let '(src, st) := p in
    match o with
    | Update U R => (src_update src U, do_update src st U R)
    | Remove D R => (src_remove src D, do_remove src st D R)
    end.

  (* each step's recheck set over-approximates the modules that reach the dirty set,
     in the graph the implementation uses for that operation *)
  Definition op_ok (src : sources) (o : op) : Prop :=
    match o with
    | Update U R => forall m, (exists d, In d (map fst U) /\ reach (src_update src U) m d) -> R m = true
    | Remove D R => forall m, (exists d, In d D /\ reach src m d) -> R m = true
    end.

  Fixpoint ops_ok (src : sources) (st : state) (ops : list op) : Prop :=
    match ops with
    | [] => True
    | o :: ops' => op_ok src o /\ ops_ok (fst (step (src, st) o)) (snd (step (src, st) o)) ops'
    end.

  Theorem incremental_eq_fresh : forall ops src st,
    Inv src st -> ops_ok src st ops ->
    let '(src', st') := fold_left step ops (src, st) in
    forall m, errs st' m = fresh src' m.
  Proof.
    induction ops as [|o ops IH]; intros src st HI Hok; cbn [fold_left].
    - apply HI.
    - destruct Hok as [Ho Hrest]. destruct o as [U R|D R]; cbn [step] in *.
      + apply IH; auto. now apply update_ok.
      + apply IH; auto. now apply remove_ok.
  Qed.
End Server.

Print Assumptions incremental_eq_fresh.
