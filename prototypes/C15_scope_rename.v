(* Feasibility prototype for C15: the scope-stack machine of ssa_analysis.rs run on
   the trace of push/pop/define/use events the visitor performs, and consistent
   renaming of one binder (definition + all uses that resolve to it) to a fresh name. *)
From Coq Require Import List Arith Bool Lia.
Import ListNotations.

Lemma NoDup_app_l {A} (l1 l2 : list A) : NoDup (l1 ++ l2) -> NoDup l1.
Proof. induction l1 as [|a l1 IH]; cbn; intros H; [constructor|]. inversion H; subst. constructor; [rewrite in_app_iff in *; tauto|auto]. Qed.
Lemma NoDup_app_r {A} (l1 l2 : list A) : NoDup (l1 ++ l2) -> NoDup l2.
Proof. induction l1 as [|a l1 IH]; cbn; intros H; auto. inversion H; auto. Qed.
Lemma NoDup_app_disj {A} (l1 l2 : list A) a : NoDup (l1 ++ l2) -> In a l1 -> In a l2 -> False.
Proof. induction l1 as [|b l1 IH]; cbn; intros H H1 H2; [tauto|]. inversion H; subst. destruct H1 as [->|H1]; [apply H4; apply in_or_app; auto|auto]. Qed.

Notation name := nat.
Notation loc := nat.

Inductive event := Push | Pop | Def (x : name) (l : loc) | Use (x : name) (l : loc).

Notation frame := (list (nat * nat)).
Notation stack := (list (list (nat * nat))).

Fixpoint find_frame (x : name) (f : frame) : option loc :=
  match f with [] => None | (y, l) :: f' => if Nat.eqb x y then Some l else find_frame x f' end.

Fixpoint lookup (x : name) (s : stack) : option loc :=
  match s with [] => None | f :: s' => match find_frame x f with Some l => Some l | None => lookup x s' end end.

Inductive err := Unbound (x : name) (l : loc) | AlreadyBound (x : name) (l : loc).

Record st := { stk : stack; uses : list (loc * loc); errs : list err }.

Definition step (s : st) (e : event) : st :=
  match e with
  | Push => {| stk := [] :: stk s; uses := uses s; errs := errs s |}
  | Pop => {| stk := tl (stk s); uses := uses s; errs := errs s |}
  | Def x l =>
      let es := match lookup x (stk s) with Some _ => AlreadyBound x l :: errs s | None => errs s end in
      {| stk := match stk s with [] => [[(x, l)]] | f :: r => ((x, l) :: f) :: r end; uses := uses s; errs := es |}
  | Use x l =>
      match lookup x (stk s) with
      | Some d => {| stk := stk s; uses := (l, d) :: uses s; errs := errs s |}
      | None => {| stk := stk s; uses := uses s; errs := Unbound x l :: errs s |}
      end
  end.

Definition run (t : list event) : st := fold_left step t {| stk := [[]]; uses := []; errs := [] |}.

(* ---- renaming binder d (named x) to x' along the trace ---- *)
Section Rename.
  Variables (d : loc) (x x' : name).

  (* which uses point to d is decided by the original run; the renamed trace is obtained
     by renaming the definition event at d and every use event that resolved to d *)
  Fixpoint rename_trace (s : stack) (t : list event) : list event :=
    match t with
    | [] => []
    | e :: t' =>
        let e' := match e with
                  | Def y l => if Nat.eqb l d then Def x' l else e
                  | Use y l => match lookup y s with Some d0 => if Nat.eqb d0 d then Use x' l else e | None => e end
                  | _ => e
                  end in
        e' :: rename_trace (stk (step {| stk := s; uses := []; errs := [] |} e)) t'
    end.

  Definition ren_binding (b : name * loc) : name * loc := if Nat.eqb (snd b) d then (x', snd b) else b.
  Definition ren_stack (s : stack) : stack := map (map ren_binding) s.

  (* names and definition sites on the stack *)
  Definition names (s : stack) : list name := map fst (concat s).
  Definition sites (s : stack) : list loc := map snd (concat s).

  (* invariant of an error-free run: every name is bound at most once on the whole stack,
     the binder d (if present) is bound to x, and x' is nowhere *)
  Definition good (s : stack) : Prop :=
    NoDup (names s) /\ ~ In x' (names s) /\ (forall y, In (y, d) (concat s) -> y = x).

  Lemma find_frame_in y f l : find_frame y f = Some l -> In (y, l) f.
  Proof. induction f as [|[z k] f IH]; cbn; [discriminate|]. destruct (Nat.eqb_spec y z); [intros [= <-]; subst; auto|auto]. Qed.
  Lemma lookup_in y s l : lookup y s = Some l -> In (y, l) (concat s).
  Proof.
    induction s as [|f s IH]; cbn; [discriminate|]. destruct (find_frame y f) eqn:E.
    - intros [= <-]. apply in_or_app. left. now apply find_frame_in.
    - intros H. apply in_or_app. right. auto.
  Qed.
  Lemma in_find_frame y l f : NoDup (map fst f) -> In (y, l) f -> find_frame y f = Some l.
  Proof.
    induction f as [|[z k] f IH]; cbn; [tauto|]. intros Hnd [E|H]; inversion Hnd as [|? ? Hn Hd]; subst.
    - inversion E; subst. now rewrite Nat.eqb_refl.
    - destruct (Nat.eqb_spec y z); [subst; exfalso; apply Hn; apply in_map_iff; exists (z, l); auto|auto].
  Qed.
  Lemma find_frame_none y f : find_frame y f = None <-> ~ In y (map fst f).
  Proof.
    induction f as [|[z k] f IH]; cbn; [tauto|]. destruct (Nat.eqb_spec y z); [subst; split; [discriminate|tauto]|].
    rewrite IH. intuition congruence.
  Qed.
  Lemma lookup_none y s : lookup y s = None <-> ~ In y (names s).
  Proof.
    unfold names. induction s as [|f s IH]; cbn; [tauto|]. rewrite map_app, in_app_iff.
    destruct (find_frame y f) as [l|] eqn:E.
    - split; [discriminate|]. intros H. exfalso. apply H. left. apply find_frame_in in E. apply in_map_iff. exists (y, l); auto.
    - rewrite IH. apply find_frame_none in E. tauto.
  Qed.
  Lemma in_lookup y l s : NoDup (names s) -> In (y, l) (concat s) -> lookup y s = Some l.
  Proof.
    unfold names. induction s as [|f s IH]; cbn; [tauto|]. rewrite map_app. intros Hnd Hin.
    apply in_app_or in Hin. pose proof (NoDup_app_l _ _ Hnd) as Hf. pose proof (NoDup_app_r _ _ Hnd) as Hs.
    destruct Hin as [Hin|Hin].
    - now rewrite (in_find_frame y l f Hf Hin).
    - destruct (find_frame y f) as [l0|] eqn:E; [|auto].
      exfalso. apply find_frame_in in E.
      apply (NoDup_app_disj _ _ y Hnd); apply in_map_iff; [exists (y, l0)|exists (y, l)]; auto.
  Qed.

  Hypothesis x_fresh : x <> x'.

  Lemma concat_ren s : concat (ren_stack s) = map ren_binding (concat s).
  Proof. unfold ren_stack. induction s as [|f s IH]; cbn; auto. now rewrite map_app, IH. Qed.

  Lemma ren_binding_id b : snd b <> d -> ren_binding b = b.
  Proof. unfold ren_binding. destruct (Nat.eqb_spec (snd b) d); tauto. Qed.

  Lemma ren_frame_id f : ~ In d (map snd f) -> map ren_binding f = f.
  Proof.
    induction f as [|b f IH]; cbn; auto. intros H. rewrite ren_binding_id by tauto. f_equal. apply IH. tauto.
  Qed.

  Lemma ren_id s : ~ In d (sites s) -> ren_stack s = s.
  Proof.
    unfold sites, ren_stack. induction s as [|f s IH]; cbn; auto. rewrite map_app, in_app_iff.
    intros H. rewrite ren_frame_id by tauto. f_equal. apply IH. tauto.
  Qed.

  (* frame-level facts under: bindings at d are named x, x' is not a name of the frame *)
  Definition fgood (f : frame) : Prop := ~ In x' (map fst f) /\ (forall y, In (y, d) f -> y = x).

  Lemma find_ren_other f y : fgood f -> y <> x -> y <> x' -> find_frame y (map ren_binding f) = find_frame y f.
  Proof.
    intros [Hx' Hd] Hy Hy'. induction f as [|[z l] f IH]; cbn; auto.
    assert (fgood_tl : ~ In x' (map fst f) /\ (forall y0, In (y0, d) f -> y0 = x)).
    { split; [cbn in Hx'; tauto|intros; apply Hd; cbn; auto]. }
    unfold ren_binding at 1. cbn [snd]. destruct (Nat.eqb_spec l d) as [->|Hl]; cbn.
    - assert (z = x) by (apply Hd; cbn; auto). subst z.
      destruct (Nat.eqb_spec y x'); [tauto|]. destruct (Nat.eqb_spec y x); [tauto|]. apply IH; tauto.
    - destruct (Nat.eqb_spec y z); auto. apply IH; tauto.
  Qed.

  Lemma find_ren_x' f : fgood f -> find_frame x' (map ren_binding f) = if existsb (Nat.eqb d) (map snd f) then Some d else None.
  Proof.
    intros [Hx' Hd]. induction f as [|[z l] f IH]; cbn; auto.
    assert (Hx'2 : ~ In x' (map fst f)) by (cbn in Hx'; tauto).
    assert (Hd2 : forall y0, In (y0, d) f -> y0 = x) by (intros; apply Hd; cbn; auto).
    unfold ren_binding at 1. cbn [snd]. destruct (Nat.eqb_spec l d) as [->|Hl]; cbn.
    - rewrite !Nat.eqb_refl. reflexivity.
    - destruct (Nat.eqb_spec x' z); [subst; exfalso; apply Hx'; cbn; auto|].
      destruct (Nat.eqb_spec d l); [congruence|]. cbn. apply IH; auto.
  Qed.

  Lemma good_frames s : good s -> Forall fgood s.
  Proof.
    intros [Hnd [Hx' Hd]]. apply Forall_forall. intros f Hf. split.
    - intros H. apply Hx'. unfold names. apply in_map_iff in H. destruct H as [b [E Hb]].
      apply in_map_iff. exists b; split; auto. apply in_concat. eauto.
    - intros y Hy. apply Hd. apply in_concat. eauto.
  Qed.

  Lemma lookup_ren_other s y : good s -> y <> x -> y <> x' -> lookup y (ren_stack s) = lookup y s.
  Proof.
    intros Hg Hy Hy'. pose proof (good_frames s Hg) as Hf. clear Hg.
    induction s as [|f s IH]; cbn; auto. inversion Hf; subst.
    rewrite find_ren_other by auto. destruct (find_frame y f); auto.
  Qed.

  Lemma lookup_ren_x' s : good s -> lookup x' (ren_stack s) = if existsb (Nat.eqb d) (sites s) then Some d else None.
  Proof.
    intros Hg. pose proof (good_frames s Hg) as Hf. clear Hg. unfold sites.
    induction s as [|f s IH]; cbn; auto. inversion Hf; subst.
    rewrite find_ren_x' by auto. rewrite map_app, existsb_app.
    destruct (existsb (Nat.eqb d) (map snd f)) eqn:E; cbn; rewrite ?E; cbn; [reflexivity|apply IH; assumption].
  Qed.

  Lemma existsb_sites s : existsb (Nat.eqb d) (sites s) = true <-> In d (sites s).
  Proof.
    rewrite existsb_exists. split; [intros [l [H1 H2]]; apply Nat.eqb_eq in H2; congruence|].
    intros H; exists d; split; auto. apply Nat.eqb_refl.
  Qed.

  (* ---- the simulation ---- *)
  (* hypotheses on the trace: x' does not occur in it, the definition event at d (if any)
     binds x, and every definition site is fresh when it is defined *)
  Fixpoint trace_ok (s : stack) (t : list event) : Prop :=
    match t with
    | [] => True
    | e :: t' =>
        (match e with
         | Def y l => y <> x' /\ (l = d -> y = x) /\ ~ In l (sites s) /\ lookup y s = None (* error-free *)
         | Use y l => y <> x' /\ lookup y s <> None (* error-free *)
         | _ => True
         end) /\ trace_ok (stk (step {| stk := s; uses := []; errs := [] |} e)) t'
    end.

  Lemma good_push s : good s -> good ([] :: s).
  Proof. intros H; exact H. Qed.
  Lemma good_pop s : good s -> good (tl s).
  Proof.
    destruct s as [|f s]; auto. intros [Hnd [Hx' Hd]]. unfold good, names in *. cbn in *.
    rewrite map_app in *. split; [eapply NoDup_app_r; eauto|]. split.
    - intros H. apply Hx'. apply in_or_app; auto.
    - intros y H. apply Hd. apply in_or_app; auto.
  Qed.
  Lemma good_def s y l : good s -> y <> x' -> (l = d -> y = x) -> lookup y s = None ->
    good (match s with [] => [[(y, l)]] | f :: r => ((y, l) :: f) :: r end).
  Proof.
    intros [Hnd [Hx' Hd]] Hy Hl Hnone. apply lookup_none in Hnone.
    destruct s as [|f r]; unfold good, names in *; cbn in *.
    - repeat split; [constructor; [tauto|constructor]|tauto|]. intros y0 [E|[]]. inversion E; subst. auto.
    - repeat split; [constructor; auto|tauto|]. intros y0 [E|H]; [inversion E; subst; auto|auto].
  Qed.

  Definition st_ren (s : st) : st := {| stk := ren_stack (stk s); uses := uses s; errs := errs s |}.

  Theorem rename_simulates : forall t s0 u0,
    good s0 -> trace_ok s0 t ->
    let s := {| stk := s0; uses := u0; errs := [] |} in
    fold_left step (rename_trace s0 t) (st_ren s) = st_ren (fold_left step t s)
    /\ errs (fold_left step t s) = [].
  Proof.
    induction t as [|e t IH]; intros s0 u0 Hg Hok; cbn [fold_left rename_trace]; [split; reflexivity|].
    destruct Hok as [He Hok].
    destruct e as [| |y l|y l]; cbn [step stk] in *.
    - (* Push *) apply (IH ([] :: s0) u0); auto.
    - (* Pop *)
      specialize (IH (tl s0) u0 (good_pop _ Hg) Hok). cbn in IH.
      unfold st_ren in *. cbn [stk uses errs step] in *.
      replace (tl (ren_stack s0)) with (ren_stack (tl s0)) by (destruct s0; reflexivity). exact IH.
    - (* Def *)
      destruct He as [Hy [Hl [Hsite Hnone]]]. rewrite Hnone.
      set (s1 := match s0 with [] => [[(y, l)]] | f :: r => ((y, l) :: f) :: r end) in *.
      specialize (IH s1 u0 (good_def s0 y l Hg Hy Hl Hnone) Hok). cbn in IH.
      unfold st_ren in *. cbn [stk uses errs] in *.
      destruct (Nat.eqb_spec l d) as [->|Hld].
      + (* the renamed binder itself *)
        assert (y = x) by auto. subst y. cbn [step stk uses errs].
        rewrite lookup_ren_x' by auto.
        assert (E : existsb (Nat.eqb d) (sites s0) = false).
        { destruct (existsb (Nat.eqb d) (sites s0)) eqn:E; auto. apply existsb_sites in E. tauto. }
        rewrite E.
        assert (Es : match ren_stack s0 with [] => [[(x', d)]] | f :: r => ((x', d) :: f) :: r end = ren_stack s1).
        { unfold s1. destruct s0 as [|f r]; cbn; unfold ren_binding; cbn; rewrite Nat.eqb_refl; reflexivity. }
        rewrite Es. exact IH.
      + cbn [step stk uses errs].
        assert (Hnone' : lookup y (ren_stack s0) = None).
        { destruct (Nat.eq_dec y x) as [->|Hyx].
          - (* x unbound in s0, so d is not on the stack (its name would be x) and renaming is the identity *)
            assert (~ In d (sites s0)).
            { intros Hin. unfold sites in Hin. apply in_map_iff in Hin. destruct Hin as [[z k] [E Hin]]. cbn in E; subst k.
              destruct Hg as [_ [_ Hd]]. assert (z = x) by (apply Hd; auto). subst z.
              apply lookup_none in Hnone. apply Hnone. unfold names. apply in_map_iff. exists (x, d); auto. }
            rewrite ren_id; auto.
          - rewrite lookup_ren_other; auto. }
        rewrite Hnone'.
        assert (Es : match ren_stack s0 with [] => [[(y, l)]] | f :: r => ((y, l) :: f) :: r end = ren_stack s1).
        { unfold s1. destruct s0 as [|f r]; cbn; rewrite (ren_binding_id (y, l)) by (cbn; auto); reflexivity. }
        rewrite Es. exact IH.
    - (* Use *)
      destruct He as [Hy Hsome]. destruct (lookup y s0) as [d0|] eqn:El; [|congruence].
      cbn [stk] in *. specialize (IH s0 ((l, d0) :: u0) Hg Hok). cbn in IH.
      unfold st_ren in *. cbn [stk uses errs] in *.
      pose proof (lookup_in _ _ _ El) as Hin.
      destruct (Nat.eqb_spec d0 d) as [->|Hd0].
      + (* a use of the renamed binder *)
        cbn [step stk]. rewrite lookup_ren_x' by auto.
        assert (E : existsb (Nat.eqb d) (sites s0) = true).
        { apply existsb_sites. unfold sites. apply in_map_iff. exists (y, d); auto. }
        rewrite E. cbn [uses errs]. exact IH.
      + cbn [step stk].
        assert (El' : lookup y (ren_stack s0) = Some d0).
        { destruct (Nat.eq_dec y x) as [->|Hyx].
          - (* x is bound to d0 <> d; by uniqueness of names d is not on the stack *)
            assert (~ In d (sites s0)).
            { intros Hin'. unfold sites in Hin'. apply in_map_iff in Hin'. destruct Hin' as [[z k] [E Hin']]. cbn in E; subst k.
              destruct Hg as [Hnd [_ Hd]]. assert (z = x) by (apply Hd; auto). subst z.
              pose proof (in_lookup x d s0 Hnd Hin') as E2. congruence. }
            rewrite ren_id; auto.
          - rewrite lookup_ren_other; auto. }
        rewrite El'. cbn [uses errs]. exact IH.
  Qed.
End Rename.

(* renaming one binder (and exactly the uses that resolve to it) to a fresh name leaves the
   use->definition graph untouched and introduces no diagnostic *)
Corollary rename_preserves_resolution d x x' t :
  x <> x' -> trace_ok d x x' [[]] t ->
  uses (run (rename_trace d x' [[]] t)) = uses (run t) /\ errs (run (rename_trace d x' [[]] t)) = [] /\ errs (run t) = [].
Proof.
  intros Hx Hok.
  assert (Hg : good d x x' [[]]).
  { unfold good, names; cbn. repeat split; [constructor|tauto|tauto]. }
  destruct (rename_simulates d x x' t [[]] [] Hg Hok) as [H1 H2]. cbn in H1, H2.
  unfold run. change {| stk := [[]]; uses := []; errs := [] |} with (st_ren d x' {| stk := [[]]; uses := []; errs := [] |}).
  rewrite H1. cbn. rewrite H2. auto.
Qed.

Print Assumptions rename_preserves_resolution.
