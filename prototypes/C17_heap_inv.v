(* Feasibility prototype for C17: model of samlang_heap::Heap (lib.rs 386-705)
   and its invariant.  Strings are abstract (decidable equality + length). *)
From Coq Require Import List Arith Bool Lia.
Import ListNotations.

Section Heap.
  Variable str : Type.
  Variable str_eqb : str -> str -> bool.
  Hypothesis str_eqb_spec : forall a b, reflect (a = b) (str_eqb a b).
  Variable len : str -> nat.
  Variable empty : str.
  Hypothesis len_empty : len empty = 0.

  Definition is_inline (s : str) : bool := len s <=? 15.

  Inductive slot := Perm (s : str) | Temp (s : str) (marked : bool) | Dead.
  Inductive handle := HInline (s : str) | HId (id : nat).

  Record heap := mk {
    table : list slot;
    istr : list (str * nat);       (* interned_string *)
    istatic : list (str * nat);    (* interned_static_str *)
    mods : list (list handle);     (* module_reference_pointer_table *)
    unmarked : list nat;           (* unmarked_module_references *)
    sweep_index : nat
  }.

  Definition init : heap := mk [] [] [] [] [] 0.

  Fixpoint lookup (s : str) (l : list (str * nat)) : option nat :=
    match l with
    | [] => None
    | (s', id) :: l' => if str_eqb s s' then Some id else lookup s l'
    end.

  Fixpoint remove (s : str) (l : list (str * nat)) : list (str * nat) :=
    match l with
    | [] => []
    | (s', id) :: l' => if str_eqb s s' then remove s l' else (s', id) :: remove s l'
    end.

  Fixpoint upd {A} (l : list A) (i : nat) (x : A) : list A :=
    match l, i with
    | [], _ => []
    | _ :: l', O => x :: l'
    | y :: l', S i' => y :: upd l' i' x
    end.

  Definition slot_str (sl : slot) : option str :=
    match sl with Perm s => Some s | Temp s _ => Some s | Dead => None end.

  Definition get (h : heap) (i : nat) : slot := nth i (table h) Dead.

  (* as_str: None models the panic on a deallocated / out-of-range slot *)
  Definition read (h : heap) (hd : handle) : option str :=
    match hd with
    | HInline s => Some s
    | HId i => slot_str (get h i)
    end.

  Definition alloc_string (h : heap) (s : str) : handle * heap :=
    if is_inline s then (HInline s, h)
    else match lookup s (istatic h) with
         | Some id => (HId id, h)
         | None =>
             match lookup s (istr h) with
             | Some id => (HId id, h)
             | None =>
                 let id := length (table h) in
                 (HId id, mk (table h ++ [Temp s false]) ((s, id) :: istr h) (istatic h)
                             (mods h) (unmarked h) (sweep_index h))
             end
         end.

  Definition alloc_static (h : heap) (s : str) : handle * heap :=
    if is_inline s then (HInline s, h)
    else match lookup s (istatic h) with
         | Some id => (HId id, h)
         | None =>
             match lookup s (istr h) with
             | Some id =>
                 (HId id, mk (upd (table h) id (Perm s)) (remove s (istr h)) ((s, id) :: istatic h)
                             (mods h) (unmarked h) (sweep_index h))
             | None =>
                 let id := length (table h) in
                 (HId id, mk (table h ++ [Perm s]) (istr h) ((s, id) :: istatic h)
                             (mods h) (unmarked h) (sweep_index h))
             end
         end.

  Definition alloc_temp (h : heap) : heap :=
    mk (table h ++ [Perm empty]) (istr h) (istatic h) (mods h) (unmarked h) (sweep_index h).

  Definition make_permanent (h : heap) (hd : handle) : heap :=
    match hd with
    | HInline _ => h
    | HId id =>
        match get h id with
        | Temp s _ => mk (upd (table h) id (Perm s)) (remove s (istr h)) ((s, id) :: istatic h)
                         (mods h) (unmarked h) (sweep_index h)
        | _ => h
        end
    end.

  Definition mark (h : heap) (hd : handle) : heap :=
    match hd with
    | HInline _ => h
    | HId id =>
        match get h id with
        | Temp s _ => mk (upd (table h) id (Temp s true)) (istr h) (istatic h)
                         (mods h) (unmarked h) (sweep_index h)
        | _ => h
        end
    end.

  (* sweep: slots in [start, stop) are visited *)
  Definition in_range (a b i : nat) : bool := (a <=? i) && (i <? b).
  Definition sweep1 (sl : slot) : slot :=
    match sl with Temp s true => Temp s false | Temp s false => Dead | o => o end.
  Fixpoint mapi_from {A} (f : nat -> A -> A) (i : nat) (l : list A) : list A :=
    match l with [] => [] | x :: l' => f i x :: mapi_from f (S i) l' end.
  Fixpoint dead_strings (a b i : nat) (l : list slot) : list str :=
    match l with
    | [] => []
    | sl :: l' =>
        (if in_range a b i then match sl with Temp s false => [s] | _ => [] end else [])
        ++ dead_strings a b (S i) l'
    end.
  Definition removes (ss : list str) (is : list (str * nat)) : list (str * nat) :=
    fold_left (fun is s => remove s is) ss is.

  Definition sweep (h : heap) (n : nat) : heap :=
    match unmarked h with
    | _ :: _ => h
    | [] =>
        let start := sweep_index h in
        let max := length (table h) in
        let (stop, next) := if max <=? start + n then (max, 0) else (start + n, start + n) in
        mk (mapi_from (fun i sl => if in_range start stop i then sweep1 sl else sl) 0 (table h))
           (removes (dead_strings start stop 0 (table h)) (istr h))
           (istatic h) (mods h) [] next
    end.

  (* ---------------- invariant ---------------- *)
  Definition keys (l : list (str * nat)) : list str := map fst l.

  Record Inv (h : heap) : Prop := {
    i_str_temp : forall s id, In (s, id) (istr h) -> exists m, get h id = Temp s m;
    i_static_perm : forall s id, In (s, id) (istatic h) -> get h id = Perm s;
    i_temp_interned : forall id s m, get h id = Temp s m -> In (s, id) (istr h);
    i_long_perm_interned : forall id s, get h id = Perm s -> is_inline s = false -> In (s, id) (istatic h);
    i_nodup_str : NoDup (keys (istr h));
    i_nodup_static : NoDup (keys (istatic h));
    i_long : forall s id, In (s, id) (istr h) \/ In (s, id) (istatic h) -> is_inline s = false;
    i_disjoint : forall s, In s (keys (istr h)) -> ~ In s (keys (istatic h));
  }.

  Definition valid (h : heap) (hd : handle) : Prop :=
    match hd with
    | HInline s => is_inline s = true
    | HId i => exists s, slot_str (get h i) = Some s /\ is_inline s = false
    end.

  Lemma lookup_in s l id : lookup s l = Some id -> In (s, id) l.
  Proof.
    induction l as [|[s' id'] l IH]; cbn; [discriminate|].
    destruct (str_eqb_spec s s'); [intros E; inversion E; subst; auto|auto].
  Qed.

  Lemma in_keys (l : list (str * nat)) s i : In (s, i) l -> In s (keys l).
  Proof. intros H. apply in_map_iff. exists (s, i); auto. Qed.

  Lemma in_nodup_unique (l : list (str * nat)) s i j : NoDup (keys l) -> In (s, i) l -> In (s, j) l -> i = j.
  Proof.
    induction l as [|[s' k] l IH]; cbn; [tauto|]. intros Hnd [E1|H1] [E2|H2];
      inversion Hnd as [|? ? Hnot Hnd']; subst.
    - congruence.
    - inversion E1; subst. exfalso. apply Hnot. eapply in_keys; eauto.
    - inversion E2; subst. exfalso. apply Hnot. eapply in_keys; eauto.
    - auto.
  Qed.

  (* the heart of the property: valid handles are equal iff their strings are *)
  Theorem handles_injective h h1 h2 s :
    Inv h -> valid h h1 -> valid h h2 -> read h h1 = Some s -> read h h2 = Some s -> h1 = h2.
  Proof.
    intros HI V1 V2 R1 R2. destruct h1 as [s1|i], h2 as [s2|j]; cbn in *.
    - congruence.
    - destruct V2 as [s' [E L]]. rewrite R2 in E. inversion E; subst. inversion R1; subst. congruence.
    - destruct V1 as [s' [E L]]. rewrite R1 in E. inversion E; subst. inversion R2; subst. congruence.
    - destruct V1 as [s1 [E1 L1]], V2 as [s2 [E2 L2]].
      rewrite R1 in E1. rewrite R2 in E2. inversion E1; inversion E2; subst s1 s2.
      f_equal.
      destruct (get h i) as [si|si mi|] eqn:Gi; cbn in R1; try discriminate; inversion R1; subst si;
      destruct (get h j) as [sj|sj mj|] eqn:Gj; cbn in R2; try discriminate; inversion R2; subst sj.
      + eapply in_nodup_unique; [apply (i_nodup_static h HI)| |];
          eapply i_long_perm_interned; eauto.
      + exfalso. pose proof (i_long_perm_interned h HI i s Gi L1) as P.
        pose proof (i_temp_interned h HI j s mj Gj) as T.
        eapply (i_disjoint h HI s); eapply in_keys; eauto.
      + exfalso. pose proof (i_long_perm_interned h HI j s Gj L1) as P.
        pose proof (i_temp_interned h HI i s mi Gi) as T.
        eapply (i_disjoint h HI s); eapply in_keys; eauto.
      + eapply in_nodup_unique; [apply (i_nodup_str h HI)| |];
          eapply i_temp_interned; eauto.
  Qed.

  (* ---------------- list plumbing ---------------- *)
  Lemma nth_upd_same {A} (l : list A) i x d : i < length l -> nth i (upd l i x) d = x.
  Proof. revert i; induction l; intros [|i] H; cbn in *; try lia; auto. apply IHl; lia. Qed.
  Lemma nth_upd_other {A} (l : list A) i j x d : i <> j -> nth j (upd l i x) d = nth j l d.
  Proof. revert i j; induction l; intros [|i] [|j] H; cbn; auto; try congruence. Qed.
  Lemma upd_length {A} (l : list A) i x : length (upd l i x) = length l.
  Proof. revert i; induction l; intros [|i]; cbn; auto. Qed.

  Lemma get_lt h i sl : get h i = sl -> sl <> Dead -> i < length (table h).
  Proof.
    unfold get. intros H N. destruct (Nat.ltb_spec i (length (table h))); auto.
    rewrite nth_overflow in H by lia. congruence.
  Qed.

  Lemma in_remove s s' id l : In (s', id) (remove s l) <-> In (s', id) l /\ s' <> s.
  Proof.
    induction l as [|[s0 k] l IH]; cbn; [tauto|].
    destruct (str_eqb_spec s s0) as [->|Hne]; cbn; rewrite IH.
    - split; [intros [H1 H2]; auto|]. intros [[E|H1] H2]; [inversion E; subst; congruence|auto].
    - split.
      + intros [E|[H1 H2]]; [inversion E; subst; split; auto|auto].
      + intros [[E|H1] H2]; auto.
  Qed.

  Lemma keys_remove_subset s l x : In x (keys (remove s l)) -> In x (keys l) /\ x <> s.
  Proof.
    intros H. apply in_map_iff in H. destruct H as [[x' k] [E H]]. cbn in E; subst.
    apply in_remove in H. destruct H. split; auto. eapply in_keys; eauto.
  Qed.

  Lemma nodup_remove s l : NoDup (keys l) -> NoDup (keys (remove s l)).
  Proof.
    induction l as [|[s0 k] l IH]; cbn; auto. intros H. inversion H as [|? ? Hn Hd]; subst.
    destruct (str_eqb_spec s s0); auto. cbn. constructor; auto.
    intros Hin. apply keys_remove_subset in Hin. tauto.
  Qed.

  Lemma lookup_none s l : lookup s l = None -> ~ In s (keys l).
  Proof.
    induction l as [|[s' k] l IH]; cbn; auto.
    destruct (str_eqb_spec s s'); [discriminate|]. intros H [E|Hin]; [congruence|]. now apply IH.
  Qed.

  (* ---------------- preservation ---------------- *)
  Lemma Inv_init : Inv init.
  Proof.
    constructor; cbn; try tauto; try constructor.
    - intros [|id] s m H; discriminate.
    - intros [|id] s H; discriminate.
  Qed.

  Lemma get_app_old h' h x : table h' = table h ++ [x] -> forall i, i < length (table h) -> get h' i = get h i.
  Proof. intros E i Hi. unfold get. rewrite E, app_nth1; auto. Qed.
  Lemma get_app_new h' h x : table h' = table h ++ [x] -> get h' (length (table h)) = x.
  Proof. intros E. unfold get. rewrite E, app_nth2, Nat.sub_diag; auto. Qed.
  Lemma get_app_cases h' h x i : table h' = table h ++ [x] ->
    (i < length (table h) /\ get h' i = get h i) \/ (i = length (table h) /\ get h' i = x) \/ (get h' i = Dead /\ get h i = Dead).
  Proof.
    intros E. destruct (lt_eq_lt_dec i (length (table h))) as [[H|H]|H].
    - left; split; auto; eapply get_app_old; eauto.
    - right; left; subst; split; auto; eapply get_app_new; eauto.
    - right; right. unfold get. rewrite E. rewrite !nth_overflow; auto; [lia|rewrite app_length; cbn; lia].
  Qed.

  Lemma Inv_alloc_string h s : Inv h -> Inv (snd (alloc_string h s)).
  Proof.
    intros HI. unfold alloc_string. destruct (is_inline s) eqn:Hin; [exact HI|].
    destruct (lookup s (istatic h)) eqn:L1; [exact HI|].
    destruct (lookup s (istr h)) eqn:L2; [exact HI|]. cbn [snd].
    set (h' := mk _ _ _ _ _ _).
    assert (E : table h' = table h ++ [Temp s false]) by reflexivity.
    constructor; cbn [istr istatic h'].
    - intros s0 id [Eq|H].
      + inversion Eq; subst. exists false. eapply get_app_new; eauto.
      + destruct (i_str_temp h HI _ _ H) as [m Hm]. exists m.
        rewrite (get_app_old h' h _ E); auto. eapply get_lt; eauto. congruence.
    - intros s0 id H. pose proof (i_static_perm h HI _ _ H) as Hp.
      rewrite (get_app_old h' h _ E); auto. eapply get_lt; eauto. congruence.
    - intros id s0 m H. destruct (get_app_cases h' h _ id E) as [[Hl Hg]|[[Hl Hg]|[Hg _]]]; rewrite Hg in H.
      + right. eapply i_temp_interned; eauto.
      + inversion H; subst. left; reflexivity.
      + discriminate.
    - intros id s0 H Hl0. destruct (get_app_cases h' h _ id E) as [[Hl Hg]|[[Hl Hg]|[Hg _]]]; rewrite Hg in H.
      + eapply i_long_perm_interned; eauto.
      + discriminate.
      + discriminate.
    - cbn. constructor; [now apply lookup_none|apply (i_nodup_str h HI)].
    - apply (i_nodup_static h HI).
    - intros s0 id [[Eq|H]|H]; [inversion Eq; subst; auto| |]; eapply (i_long h HI); eauto.
    - intros s0 [Eq|H]; cbn in *; [subst; now apply lookup_none|now apply (i_disjoint h HI)].
  Qed.

  Lemma alloc_string_valid h s : Inv h ->
    let '(hd, h') := alloc_string h s in valid h' hd /\ read h' hd = Some s.
  Proof.
    intros HI. unfold alloc_string. destruct (is_inline s) eqn:Hin; [cbn; auto|].
    destruct (lookup s (istatic h)) as [id|] eqn:L1.
    { apply lookup_in in L1. pose proof (i_static_perm h HI _ _ L1) as Hp. cbn. rewrite Hp. cbn. eauto. }
    destruct (lookup s (istr h)) as [id|] eqn:L2.
    { apply lookup_in in L2. destruct (i_str_temp h HI _ _ L2) as [m Hm]. cbn. rewrite Hm. cbn. eauto. }
    cbn. unfold get. cbn. rewrite app_nth2, Nat.sub_diag by lia. cbn. eauto.
  Qed.

  (* promotion Temp -> Perm at slot id holding s, shared by alloc_static and make_permanent *)
  Lemma Inv_promote h s id m : Inv h -> get h id = Temp s m ->
    Inv (mk (upd (table h) id (Perm s)) (remove s (istr h)) ((s, id) :: istatic h)
            (mods h) (unmarked h) (sweep_index h)).
  Proof.
    intros HI Hg. set (h' := mk _ _ _ _ _ _).
    assert (Hlt : id < length (table h)) by (eapply get_lt; eauto; congruence).
    assert (Gs : get h' id = Perm s) by (unfold get, h'; cbn; now apply nth_upd_same).
    assert (Go : forall j, j <> id -> get h' j = get h j) by (intros j Hj; unfold get, h'; cbn; apply nth_upd_other; auto).
    pose proof (i_temp_interned h HI _ _ _ Hg) as Hin.
    constructor; cbn [istr istatic h'].
    - intros s0 k H. apply in_remove in H. destruct H as [H Hne].
      destruct (i_str_temp h HI _ _ H) as [m0 Hm0]. exists m0.
      rewrite Go; auto. intros ->. rewrite Hg in Hm0. congruence.
    - intros s0 k [Eq|H]; [inversion Eq; subst; auto|].
      pose proof (i_static_perm h HI _ _ H) as Hp. rewrite Go; auto. intros ->. congruence.
    - intros k s0 m0 H. destruct (Nat.eq_dec k id); [subst; congruence|].
      rewrite Go in H by auto. apply in_remove. split; [eapply i_temp_interned; eauto|].
      intros ->. pose proof (i_temp_interned h HI _ _ _ H) as Hin'.
      pose proof (in_nodup_unique _ _ _ _ (i_nodup_str h HI) Hin Hin'). congruence.
    - intros k s0 H Hl. destruct (Nat.eq_dec k id); [subst; rewrite Gs in H; inversion H; subst; left; reflexivity|].
      rewrite Go in H by auto. right. eapply i_long_perm_interned; eauto.
    - apply nodup_remove, (i_nodup_str h HI).
    - cbn. constructor; [|apply (i_nodup_static h HI)].
      apply (i_disjoint h HI). eapply in_keys; eauto.
    - intros s0 k [H|[Eq|H]].
      + apply in_remove in H. eapply (i_long h HI); left; apply H.
      + inversion Eq; subst. eapply (i_long h HI); left; eauto.
      + eapply (i_long h HI); right; eauto.
    - intros s0 H [Eq|H']; cbn in *.
      + subst. apply keys_remove_subset in H. tauto.
      + apply keys_remove_subset in H. destruct H. eapply (i_disjoint h HI); eauto.
  Qed.

  Lemma Inv_make_permanent h hd : Inv h -> Inv (make_permanent h hd).
  Proof.
    intros HI. destruct hd as [s|id]; cbn; auto.
    destruct (get h id) eqn:G; auto. eapply Inv_promote; eauto.
  Qed.

  Lemma Inv_alloc_static h s : Inv h -> Inv (snd (alloc_static h s)).
  Proof.
    intros HI. unfold alloc_static. destruct (is_inline s) eqn:Hin; [exact HI|].
    destruct (lookup s (istatic h)) eqn:L1; [exact HI|].
    destruct (lookup s (istr h)) as [id|] eqn:L2; cbn [snd].
    - apply lookup_in in L2. destruct (i_str_temp h HI _ _ L2) as [m Hm]. eapply Inv_promote; eauto.
    - set (h' := mk _ _ _ _ _ _).
      assert (E : table h' = table h ++ [Perm s]) by reflexivity.
      constructor; cbn [istr istatic h'].
      + intros s0 id H. destruct (i_str_temp h HI _ _ H) as [m Hm]. exists m.
        rewrite (get_app_old h' h _ E); auto. eapply get_lt; eauto. congruence.
      + intros s0 id [Eq|H].
        * inversion Eq; subst. eapply get_app_new; eauto.
        * pose proof (i_static_perm h HI _ _ H) as Hp.
          rewrite (get_app_old h' h _ E); auto. eapply get_lt; eauto. congruence.
      + intros id s0 m H. destruct (get_app_cases h' h _ id E) as [[Hl Hg]|[[Hl Hg]|[Hg _]]]; rewrite Hg in H;
          [eapply i_temp_interned; eauto|discriminate|discriminate].
      + intros id s0 H Hl0. destruct (get_app_cases h' h _ id E) as [[Hl Hg]|[[Hl Hg]|[Hg _]]]; rewrite Hg in H.
        * right. eapply i_long_perm_interned; eauto.
        * inversion H; subst. left; reflexivity.
        * discriminate.
      + apply (i_nodup_str h HI).
      + cbn. constructor; [now apply lookup_none|apply (i_nodup_static h HI)].
      + intros s0 id [H|[Eq|H]]; [|inversion Eq; subst; auto|]; eapply (i_long h HI); eauto.
      + intros s0 H [Eq|H']; cbn in *; [subst; now apply (lookup_none _ _ L2)|eapply (i_disjoint h HI); eauto].
  Qed.

  Lemma Inv_mark h hd : Inv h -> Inv (mark h hd).
  Proof.
    intros HI. destruct hd as [s|id]; cbn; auto.
    destruct (get h id) as [|s m|] eqn:G; auto.
    set (h' := mk _ _ _ _ _ _).
    assert (Hlt : id < length (table h)) by (eapply get_lt; eauto; congruence).
    assert (Gs : get h' id = Temp s true) by (unfold get, h'; cbn; now apply nth_upd_same).
    assert (Go : forall j, j <> id -> get h' j = get h j) by (intros j Hj; unfold get, h'; cbn; apply nth_upd_other; auto).
    constructor; cbn [istr istatic h'].
    - intros s0 k H. destruct (i_str_temp h HI _ _ H) as [m0 Hm0].
      destruct (Nat.eq_dec k id); [subst; rewrite G in Hm0; inversion Hm0; subst; eauto|rewrite Go; eauto].
    - intros s0 k H. pose proof (i_static_perm h HI _ _ H). destruct (Nat.eq_dec k id); [subst; congruence|rewrite Go; auto].
    - intros k s0 m0 H. destruct (Nat.eq_dec k id).
      + subst. rewrite Gs in H. inversion H; subst. eapply i_temp_interned; eauto.
      + rewrite Go in H by auto. eapply i_temp_interned; eauto.
    - intros k s0 H Hl. destruct (Nat.eq_dec k id); [subst; congruence|].
      rewrite Go in H by auto. eapply i_long_perm_interned; eauto.
    - apply (i_nodup_str h HI).
    - apply (i_nodup_static h HI).
    - apply (i_long h HI).
    - apply (i_disjoint h HI).
  Qed.

  (* ---------------- sweep ---------------- *)
  Lemma nth_mapi_from {A} (f : nat -> A -> A) (l : list A) : forall k i d,
    (forall j, f j d = d) -> nth i (mapi_from f k l) d = f (k + i) (nth i l d).
  Proof.
    induction l as [|x l IH]; intros k i d Hd; cbn.
    - destruct i; now rewrite Hd.
    - destruct i; cbn; [now rewrite Nat.add_0_r|]. rewrite IH by auto. f_equal. lia.
  Qed.

  Lemma in_removes ss : forall is s id, In (s, id) (removes ss is) <-> In (s, id) is /\ ~ In s ss.
  Proof.
    unfold removes. induction ss as [|x ss IH]; intros is s id; cbn; [tauto|].
    rewrite IH, in_remove. intuition congruence.
  Qed.

  Lemma nodup_removes ss : forall is, NoDup (keys is) -> NoDup (keys (removes ss is)).
  Proof. unfold removes. induction ss; intros is H; cbn; auto. apply IHss. now apply nodup_remove. Qed.

  Lemma in_dead_strings a b l : forall k s,
    In s (dead_strings a b k l) <-> exists i, in_range a b (k + i) = true /\ nth_error l i = Some (Temp s false).
  Proof.
    induction l as [|sl l IH]; intros k s; cbn [dead_strings].
    - split; [intros []|]. intros [i [_ H]]. destruct i; discriminate.
    - rewrite in_app_iff, IH. split.
      + intros [H|[i [H1 H2]]].
        * exists 0. rewrite Nat.add_0_r. destruct (in_range a b k); [|destruct H].
          destruct sl as [|s' [|]|]; try destruct H as [<-|[]]; try destruct H. auto.
        * exists (S i). split; [now replace (k + S i) with (S k + i) by lia|exact H2].
      + intros [[|i] [H1 H2]].
        * left. rewrite Nat.add_0_r in H1. rewrite H1. cbn in H2. inversion H2; subst. now left.
        * right. exists i. split; [now replace (S k + i) with (k + S i) by lia|exact H2].
  Qed.

  Lemma nth_error_get h i sl : nth_error (table h) i = Some sl -> get h i = sl.
  Proof. intros H. unfold get. now apply nth_error_nth. Qed.
  Lemma get_nth_error h i sl : get h i = sl -> sl <> Dead -> nth_error (table h) i = Some sl.
  Proof.
    intros H N. pose proof (get_lt _ _ _ H N) as Hl. unfold get in H.
    rewrite <- H. apply nth_error_nth'. exact Hl.
  Qed.

  Definition swept (h : heap) (a b : nat) : heap :=
    mk (mapi_from (fun i sl => if in_range a b i then sweep1 sl else sl) 0 (table h))
       (removes (dead_strings a b 0 (table h)) (istr h)) (istatic h) (mods h) [] 0.

  Lemma get_swept h a b i : get (swept h a b) i = if in_range a b i then sweep1 (get h i) else get h i.
  Proof. unfold get, swept; cbn. rewrite nth_mapi_from; [reflexivity|]. intros j. now destruct (in_range a b j). Qed.

  Lemma Inv_swept h a b : Inv h -> Inv (swept h a b).
  Proof.
    intros HI.
    assert (Hdead : forall s, In s (dead_strings a b 0 (table h)) <->
                              exists i, in_range a b i = true /\ get h i = Temp s false).
    { intros s. rewrite in_dead_strings. split; intros [i [H1 H2]]; exists i; cbn in *; split; auto.
      - now apply nth_error_get.
      - apply get_nth_error; auto. congruence. }
    constructor; cbn [istr istatic swept].
    - intros s id H. apply in_removes in H. destruct H as [Hin Hnd].
      destruct (i_str_temp h HI _ _ Hin) as [m Hm]. rewrite get_swept, Hm.
      destruct (in_range a b id) eqn:R; [|eauto]. destruct m; cbn; [eauto|].
      exfalso. apply Hnd. apply Hdead. eauto.
    - intros s id H. rewrite get_swept, (i_static_perm h HI _ _ H). now destruct (in_range a b id).
    - intros id s m H. rewrite get_swept in H.
      assert (exists m0, get h id = Temp s m0 /\ (in_range a b id = true -> m0 = true)) as [m0 [G Hm0]].
      { destruct (in_range a b id); [|eauto]. destruct (get h id) as [|s0 [|]|]; cbn in H; try discriminate.
        inversion H; subst; eauto. exists m; split; auto; discriminate. }
      apply in_removes. split; [eapply i_temp_interned; eauto|].
      intros Hd. apply Hdead in Hd. destruct Hd as [j [Rj Gj]].
      pose proof (in_nodup_unique _ _ _ _ (i_nodup_str h HI)
                    (i_temp_interned h HI _ _ _ G) (i_temp_interned h HI _ _ _ Gj)) as ->.
      rewrite Gj in G. inversion G; subst. specialize (Hm0 Rj). discriminate.
    - intros id s H Hl. rewrite get_swept in H.
      assert (get h id = Perm s).
      { destruct (in_range a b id); auto. destruct (get h id) as [|s0 [|]|]; cbn in H; congruence. }
      eapply i_long_perm_interned; eauto.
    - apply nodup_removes, (i_nodup_str h HI).
    - apply (i_nodup_static h HI).
    - intros s id [H|H]; [apply in_removes in H; destruct H|]; eapply (i_long h HI); eauto.
    - intros s H. apply in_map_iff in H. destruct H as [[s' id] [E H]]. cbn in E; subst.
      apply in_removes in H. destruct H. apply (i_disjoint h HI). eapply in_keys; eauto.
  Qed.

  Definition Inv_nosweepidx (h : heap) := Inv h.

  (* Inv does not mention unmarked / sweep_index / mods *)
  Lemma Inv_ext h h' : table h = table h' -> istr h = istr h' -> istatic h = istatic h' -> Inv h -> Inv h'.
  Proof.
    intros E1 E2 E3 HI. assert (G : forall i, get h' i = get h i) by (intros; unfold get; now rewrite E1).
    constructor; rewrite <- ?E2, <- ?E3; try setoid_rewrite G; apply HI.
  Qed.

  Lemma Inv_sweep h n : Inv h -> Inv (sweep h n).
  Proof.
    intros HI. unfold sweep. destruct (unmarked h); auto.
    destruct (length (table h) <=? sweep_index h + n);
      eapply (Inv_ext (swept h _ _)); try reflexivity; now apply Inv_swept.
  Qed.

  (* the clauses of the property about sweeping *)
  Theorem sweep_gate h n : unmarked h <> [] -> sweep h n = h.
  Proof. unfold sweep. destruct (unmarked h); congruence. Qed.

  Lemma sweep_get h n : unmarked h = [] -> exists a b, forall i, get (sweep h n) i = get (swept h a b) i.
  Proof.
    intros E. unfold sweep. rewrite E.
    destruct (length (table h) <=? sweep_index h + n); eexists _, _; intros i; reflexivity.
  Qed.

  Theorem never_reclaims_protected h n i :
    (exists s, get h i = Perm s \/ get h i = Temp s true) -> get (sweep h n) i <> Dead.
  Proof.
    intros [s Hs]. destruct (unmarked h) eqn:E.
    - destruct (sweep_get h n E) as [a [b Hg]]. rewrite Hg, get_swept.
      destruct (in_range a b i); destruct Hs as [-> | ->]; cbn; discriminate.
    - rewrite sweep_gate by congruence. destruct Hs as [-> | ->]; discriminate.
  Qed.

  (* a slot never changes the string it holds; it can only die *)
  Theorem sweep_read_stable h n i s : slot_str (get h i) = Some s ->
    slot_str (get (sweep h n) i) = Some s \/ get (sweep h n) i = Dead.
  Proof.
    intros H. destruct (unmarked h) eqn:E.
    - destruct (sweep_get h n E) as [a [b Hg]]. rewrite Hg, get_swept.
      destruct (in_range a b i); auto. destruct (get h i) as [|s0 [|]|]; cbn in *; auto.
    - rewrite sweep_gate by congruence. auto.
  Qed.
End Heap.

Print Assumptions handles_injective.
Print Assumptions Inv_sweep.
Print Assumptions never_reclaims_protected.
