(* Feasibility prototype for C18: what T-std would emit for a slice of std/map.sam
   (monadic result type, fuel on recursive members), and how proofs over it feel. *)
From Coq Require Import List ZArith Lia Bool.
Import ListNotations.
Open Scope Z_scope.

Inductive res (A : Type) := Ok (a : A) | Panic | OutOfFuel.
Arguments Ok {A} a. Arguments Panic {A}. Arguments OutOfFuel {A}.
Definition bind {A B} (m : res A) (f : A -> res B) : res B :=
  match m with Ok a => f a | Panic => Panic | OutOfFuel => OutOfFuel end.
Notation "'let*' x ':=' m 'in' f" := (bind m (fun x => f)) (at level 200, x name, right associativity).
Notation "'let*' ' p ':=' m 'in' f" := (bind m (fun p => f)) (at level 200, p pattern, right associativity).

Section MapGen.
  Variable K V : Type.
  Variable K_compare : K -> K -> res Z.          (* bound  K : Comparable<K> *)
  Variable phys_eq : forall A, A -> A -> bool.   (* `==` on non-primitive values *)

  Inductive Map := Empty | Leaf (k : K) (v : V) | Node (h : Z) (k : K) (v : V) (l r : Map).

  (* pure, non-recursive members *)
  Definition height (this : Map) : Z := match this with Empty => 0 | Leaf _ _ => 1 | Node h _ _ _ _ => h end.
  Definition singleton (key : K) (value : V) : Map := Leaf key value.
  Definition sortedTwoNodesLarger (this : Map) (k : K) (v : V) : Map := Node 2 k v this Empty.
  Definition sortedTwoNodesSmaller (this : Map) (k : K) (v : V) : Map := Node 2 k v Empty this.
  Definition create (left : Map) (key : K) (value : V) (right : Map) : Map :=
    let lh := height left in let rh := height right in
    let h := if lh >=? rh then lh + 1 else rh + 1 in
    if h =? 1 then singleton key value else Node h key value left right.
  Definition node (left : Map) (key : K) (value : V) (right : Map) : Map :=
    let lh := height left in let rh := height right in
    let h := if lh >=? rh then lh + 1 else rh + 1 in
    Node h key value left right.
  (* may panic *)
  Definition forcedNodeWithoutHeight (this : Map) : res (K * V * Map * Map) :=
    match this with Empty => Panic | Leaf _ _ => Panic | Node _ k v l r => Ok (k, v, l, r) end.
  Definition balanced (l : Map) (k : K) (v : V) (r : Map) : res Map :=
    let lh := height l in let rh := height r in
    if lh >? rh + 2 then
      let* '(lk, lv, ll, lr) := forcedNodeWithoutHeight l in
      if height ll >=? height lr then Ok (node ll lk lv (create lr k v r))
      else let* '(lrk, lrv, lrl, lrr) := forcedNodeWithoutHeight lr in
           Ok (node (create ll lk lv lrl) lrk lrv (create lrr k v r))
    else if rh >? lh + 2 then
      let* '(rk, rv, rl, rr) := forcedNodeWithoutHeight r in
      if height rr >=? height rl then Ok (node (create l k v rl) rk rv rr)
      else let* '(rlk, rlv, rll, rlr) := forcedNodeWithoutHeight rl in
           Ok (node (create l k v rll) rlk rlv (create rlr rk rv rr))
    else Ok (create l k v r).

  (* recursive members: fuel *)
  Fixpoint get (fuel : nat) (this : Map) (key : K) : res (option V) :=
    match fuel with O => OutOfFuel | S fuel =>
    match this with
    | Empty => Ok None
    | Leaf k v => let* c := K_compare k key in if c =? 0 then Ok (Some v) else Ok None
    | Node _ k v l r => let* c := K_compare key k in
        if c =? 0 then Ok (Some v) else if c <? 0 then get fuel l key else get fuel r key
    end end.

  Fixpoint insert (fuel : nat) (this : Map) (key : K) (value : V) : res Map :=
    match fuel with O => OutOfFuel | S fuel =>
    match this with
    | Empty => Ok (singleton key value)
    | Leaf k v => let* c := K_compare key k in
        if c =? 0 then (if phys_eq V v value then Ok this else Ok (Leaf k value))
        else if c <? 0 then Ok (sortedTwoNodesSmaller this key value)
        else Ok (sortedTwoNodesLarger this key value)
    | Node h k v l r => let* c := K_compare key k in
        if c =? 0 then (if phys_eq V v value then Ok this else Ok (Node h k value l r))
        else if c <? 0 then
          let* ll := insert fuel l key value in
          if phys_eq Map l ll then Ok this else balanced ll k v r
        else
          let* rr := insert fuel r key value in
          if phys_eq Map r rr then Ok this else balanced l k v rr
    end end.
End MapGen.

Arguments Empty {K V}. Arguments Leaf {K V}. Arguments Node {K V}.

(* ------------------------------------------------------------------ *)
Section Proofs.
  Variable V : Type.
  Variable phys_eq : forall A, A -> A -> bool.
  Hypothesis phys_eq_sound : forall A (a b : A), phys_eq A a b = true -> a = b.
  (* keys: Z with compare = a - b *)
  Definition cmp (a b : Z) : res Z := Ok (a - b).
  Notation M := (Map Z V).

  Fixpoint bindings (t : M) : list (Z * V) :=
    match t with Empty => [] | Leaf k v => [(k, v)] | Node _ k v l r => bindings l ++ (k, v) :: bindings r end.

  (* real height and the AVL invariant with stored heights *)
  Fixpoint avl (t : M) : Prop :=
    match t with
    | Empty => True
    | Leaf _ _ => True
    | Node h _ _ l r => avl l /\ avl r /\ h = Z.max (height _ _ l) (height _ _ r) + 1
                        /\ -2 <= height _ _ l - height _ _ r <= 2
    end.

  Lemma height_nonneg t : avl t -> 0 <= height _ _ t.
  Proof. induction t; cbn; intros; try lia. destruct H as (Hl & Hr & Hh & Hb). specialize (IHt1 Hl). specialize (IHt2 Hr). lia. Qed.

  Lemma height_zero t : avl t -> height _ _ t = 0 -> t = Empty.
  Proof.
    destruct t; cbn; intros Ha Hh; auto; [lia|].
    destruct Ha as (Hl & Hr & Hh' & Hb). pose proof (height_nonneg _ Hl). pose proof (height_nonneg _ Hr). lia.
  Qed.

  Lemma create_avl l k v r : avl l -> avl r -> -2 <= height _ _ l - height _ _ r <= 2 ->
    avl (create _ _ l k v r) /\ height _ _ (create _ _ l k v r) = Z.max (height _ _ l) (height _ _ r) + 1
    /\ bindings (create _ _ l k v r) = bindings l ++ (k, v) :: bindings r.
  Proof.
    intros Hl Hr Hb. pose proof (height_nonneg l Hl). pose proof (height_nonneg r Hr).
    unfold create.
    destruct (height _ _ l >=? height _ _ r) eqn:E.
    - destruct (height _ _ l + 1 =? 1) eqn:E1.
      + assert (l = Empty) by (apply height_zero; auto; lia). subst l.
        assert (r = Empty) by (apply height_zero; auto; cbn in *; lia). subst r.
        cbn. repeat split; auto.
      + cbn. repeat split; auto; lia.
    - destruct (height _ _ r + 1 =? 1) eqn:E1; [lia|]. cbn. repeat split; auto; lia.
  Qed.

  Lemma node_avl l k v r : avl l -> avl r -> -2 <= height _ _ l - height _ _ r <= 2 ->
    avl (node _ _ l k v r) /\ height _ _ (node _ _ l k v r) = Z.max (height _ _ l) (height _ _ r) + 1
    /\ bindings (node _ _ l k v r) = bindings l ++ (k, v) :: bindings r.
  Proof.
    intros Hl Hr Hb. unfold node. destruct (height _ _ l >=? height _ _ r) eqn:E; cbn; repeat split; auto; lia.
  Qed.

  (* balanced: the classical AVL lemma, stated for the code's own threshold (2)
     and with "never panics" as part of the conclusion *)
  Lemma balanced_avl l k v r : avl l -> avl r -> -3 <= height _ _ l - height _ _ r <= 3 ->
    exists t, balanced _ _ l k v r = Ok t /\ avl t
      /\ bindings t = bindings l ++ (k, v) :: bindings r
      /\ (Z.max (height _ _ l) (height _ _ r) <= height _ _ t <= Z.max (height _ _ l) (height _ _ r) + 1)
      /\ (-2 <= height _ _ l - height _ _ r <= 2 -> height _ _ t = Z.max (height _ _ l) (height _ _ r) + 1).
  Proof.
    intros Hl Hr Hb. pose proof (height_nonneg l Hl) as Nl. pose proof (height_nonneg r Hr) as Nr.
    unfold balanced.
    destruct (height _ _ l >? height _ _ r + 2) eqn:E1.
    - destruct l as [|lk lv|lh lk lv ll lr]; cbn in E1, Hb, Nl; try lia.
      cbn [forcedNodeWithoutHeight bind]. destruct Hl as (Hll & Hlr & Hlh & Hlb).
      pose proof (height_nonneg ll Hll) as Nll. pose proof (height_nonneg lr Hlr) as Nlr.
      destruct (height _ _ ll >=? height _ _ lr) eqn:E2.
      + destruct (create_avl lr k v r Hlr Hr ltac:(cbn in *; lia)) as (Ha & Hh & Hbd).
        destruct (node_avl ll lk lv (create _ _ lr k v r) Hll Ha ltac:(cbn in *; lia)) as (Ha' & Hh' & Hbd').
        eexists; split; [reflexivity|]. split; auto. split; [|split].
        * rewrite Hbd', Hbd. cbn [bindings]. repeat (rewrite <- app_assoc; cbn [app]). reflexivity.
        * cbn in *. lia.
        * cbn in *. lia.
      + destruct lr as [|lrk lrv|lrh lrk lrv lrl lrr]; cbn in E2, Hlb, Hlh, Nlr; try lia.
        cbn [forcedNodeWithoutHeight bind]. destruct Hlr as (Ha1 & Ha2 & Hh2 & Hb2).
        pose proof (height_nonneg lrl Ha1). pose proof (height_nonneg lrr Ha2).
        destruct (create_avl ll lk lv lrl Hll Ha1 ltac:(cbn in *; lia)) as (Hca & Hch & Hcb).
        destruct (create_avl lrr k v r Ha2 Hr ltac:(cbn in *; lia)) as (Hda & Hdh & Hdb).
        destruct (node_avl _ lrk lrv _ Hca Hda ltac:(cbn in *; lia)) as (Hna & Hnh & Hnb).
        eexists; split; [reflexivity|]. split; auto. split; [|split].
        * rewrite Hnb, Hcb, Hdb. cbn [bindings]. repeat (rewrite <- app_assoc; cbn [app]). reflexivity.
        * cbn in *. lia.
        * cbn in *. lia.
    - destruct (height _ _ r >? height _ _ l + 2) eqn:E3.
      + destruct r as [|rk rv|rh rk rv rl rr]; cbn in E3, Hb, Nr; try lia.
        cbn [forcedNodeWithoutHeight bind]. destruct Hr as (Hrl & Hrr & Hrh & Hrb).
        pose proof (height_nonneg rl Hrl) as Nrl. pose proof (height_nonneg rr Hrr) as Nrr.
        destruct (height _ _ rr >=? height _ _ rl) eqn:E2.
        * destruct (create_avl l k v rl Hl Hrl ltac:(cbn in *; lia)) as (Ha & Hh & Hbd).
          destruct (node_avl (create _ _ l k v rl) rk rv rr Ha Hrr ltac:(cbn in *; lia)) as (Ha' & Hh' & Hbd').
          eexists; split; [reflexivity|]. split; auto. split; [|split].
          -- rewrite Hbd', Hbd. cbn [bindings]. repeat (rewrite <- app_assoc; cbn [app]). reflexivity.
          -- cbn in *. lia.
          -- cbn in *. lia.
        * destruct rl as [|rlk rlv|rlh rlk rlv rll rlr]; cbn in E2, Hrb, Hrh, Nrl; try lia.
          cbn [forcedNodeWithoutHeight bind]. destruct Hrl as (Ha1 & Ha2 & Hh2 & Hb2).
          pose proof (height_nonneg rll Ha1). pose proof (height_nonneg rlr Ha2).
          destruct (create_avl l k v rll Hl Ha1 ltac:(cbn in *; lia)) as (Hca & Hch & Hcb).
          destruct (create_avl rlr rk rv rr Ha2 Hrr ltac:(cbn in *; lia)) as (Hda & Hdh & Hdb).
          destruct (node_avl _ rlk rlv _ Hca Hda ltac:(cbn in *; lia)) as (Hna & Hnh & Hnb).
          eexists; split; [reflexivity|]. split; auto. split; [|split].
          -- rewrite Hnb, Hcb, Hdb. cbn [bindings]. repeat (rewrite <- app_assoc; cbn [app]). reflexivity.
          -- cbn in *. lia.
          -- cbn in *. lia.
      + destruct (create_avl l k v r Hl Hr ltac:(lia)) as (Ha & Hh & Hbd).
        eexists; split; [reflexivity|]. split; auto. split; auto. split; lia.
  Qed.

  (* ---------------- specification on sorted association lists ---------------- *)
  Fixpoint put (k : Z) (v : V) (l : list (Z * V)) : list (Z * V) :=
    match l with
    | [] => [(k, v)]
    | (k', v') :: l' => if k <? k' then (k, v) :: l else if k =? k' then (k, v) :: l' else (k', v') :: put k v l'
    end.

  Definition keys_lt (l : list (Z * V)) (k : Z) : Prop := Forall (fun p => fst p < k) l.
  Definition keys_gt (l : list (Z * V)) (k : Z) : Prop := Forall (fun p => k < fst p) l.

  (* strictly increasing keys *)
  Fixpoint sorted (l : list (Z * V)) : Prop :=
    match l with [] => True | (k, _) :: l' => keys_gt l' k /\ sorted l' end.

  Lemma sorted_app_inv l1 k v l2 : sorted (l1 ++ (k, v) :: l2) ->
    sorted l1 /\ sorted l2 /\ keys_lt l1 k /\ keys_gt l2 k.
  Proof.
    induction l1 as [|[k1 v1] l1 IH]; cbn [app sorted].
    - intros [H1 H2]. repeat split; auto. constructor.
    - intros [H1 H2]. destruct (IH H2) as (Ha & Hb & Hc & Hd). unfold keys_gt in H1.
      apply Forall_app in H1. destruct H1 as [H1a H1b]. inversion H1b; subst. cbn in *.
      repeat split; auto. constructor; auto.
  Qed.

  Lemma put_app_lt k v l1 k' v' l2 : k < k' -> put k v (l1 ++ (k', v') :: l2) = put k v l1 ++ (k', v') :: l2.
  Proof.
    intros Hlt. induction l1 as [|[k1 v1] l1 IH]; cbn [app put].
    - destruct (Z.ltb_spec k k'); [reflexivity|lia].
    - destruct (k <? k1); [reflexivity|]. destruct (k =? k1); [reflexivity|]. cbn [app]. now rewrite IH.
  Qed.

  Lemma put_app_eq k v l1 v' l2 : keys_lt l1 k -> put k v (l1 ++ (k, v') :: l2) = l1 ++ (k, v) :: l2.
  Proof.
    intros H. induction l1 as [|[k1 v1] l1 IH]; cbn [app put].
    - destruct (Z.ltb_spec k k); [lia|]. now rewrite Z.eqb_refl.
    - inversion H; subst. cbn in *. destruct (Z.ltb_spec k k1); [lia|]. destruct (Z.eqb_spec k k1); [lia|].
      now rewrite IH.
  Qed.

  Lemma put_app_gt k v l1 k' v' l2 : keys_lt l1 k' -> k' < k ->
    put k v (l1 ++ (k', v') :: l2) = l1 ++ (k', v') :: put k v l2.
  Proof.
    intros H Hlt. induction l1 as [|[k1 v1] l1 IH]; cbn [app put].
    - destruct (Z.ltb_spec k k'); [lia|]. destruct (Z.eqb_spec k k'); [lia|reflexivity].
    - inversion H; subst. cbn in *. destruct (Z.ltb_spec k k1); [lia|]. destruct (Z.eqb_spec k k1); [lia|].
      now rewrite IH.
  Qed.

  (* ---------------- insert over the fuelled embedding ---------------- *)
  Notation ins := (insert Z V cmp phys_eq).

  Theorem insert_correct k v : forall t, avl t -> sorted (bindings t) ->
    forall fuel, height _ _ t < Z.of_nat fuel ->
    exists t', ins fuel t k v = Ok t' /\ avl t' /\ bindings t' = put k v (bindings t)
               /\ height _ _ t <= height _ _ t' <= height _ _ t + 1.
  Proof.
    induction t as [|k0 v0|h k0 v0 l IHl r IHr]; intros Ha Hs fuel Hf.
    - destruct fuel as [|fuel]; [cbn in Hf; lia|]. cbn. eexists; split; [reflexivity|]. cbn. repeat split; auto; lia.
    - destruct fuel as [|fuel]; [cbn in Hf; lia|]. cbn [insert cmp bind].
      destruct (Z.eqb_spec (k - k0) 0) as [E|NE].
      + assert (k = k0) by lia. subst k0.
        destruct (phys_eq V v0 v) eqn:Ep.
        * apply phys_eq_sound in Ep. subst v0. eexists; split; [reflexivity|]. cbn.
          rewrite Z.ltb_irrefl, Z.eqb_refl. repeat split; auto; lia.
        * eexists; split; [reflexivity|]. cbn. rewrite Z.ltb_irrefl, Z.eqb_refl. repeat split; auto; lia.
      + destruct (Z.ltb_spec (k - k0) 0) as [Hlt|Hge].
        * eexists; split; [reflexivity|]. cbn. destruct (Z.ltb_spec k k0); [|lia]. repeat split; auto; lia.
        * eexists; split; [reflexivity|]. cbn. destruct (Z.ltb_spec k k0); [lia|]. destruct (Z.eqb_spec k k0); [lia|].
          repeat split; auto; lia.
    - destruct fuel as [|fuel]; [pose proof (height_nonneg _ Ha); cbn in *; lia|].
      pose proof Ha as Ha'. cbn [avl] in Ha'. destruct Ha' as (Hal & Har & Hh & Hb).
      pose proof (height_nonneg l Hal) as Nl. pose proof (height_nonneg r Har) as Nr.
      cbn [bindings] in Hs. destruct (sorted_app_inv _ _ _ _ Hs) as (Hsl & Hsr & Hkl & Hkr).
      cbn [insert cmp bind]. cbn [height] in Hf.
      destruct (Z.eqb_spec (k - k0) 0) as [E|NE].
      + assert (k = k0) by lia. subst k0.
        destruct (phys_eq V v0 v) eqn:Ep.
        * apply phys_eq_sound in Ep. subst v0. eexists; split; [reflexivity|]. split; auto.
          cbn [bindings height]. rewrite put_app_eq by auto. split; [reflexivity|lia].
        * eexists; split; [reflexivity|]. split; [cbn; auto|].
          cbn [bindings height]. rewrite put_app_eq by auto. split; [reflexivity|lia].
      + destruct (Z.ltb_spec (k - k0) 0) as [Hlt|Hge].
        * destruct (IHl Hal Hsl fuel ltac:(lia)) as (ll & Hins & Hall & Hbl & Hhl). rewrite Hins. cbn [bind].
          destruct (phys_eq (Map Z V) l ll) eqn:Ep.
          -- apply phys_eq_sound in Ep. subst ll. eexists; split; [reflexivity|]. split; auto.
             cbn [bindings height]. rewrite put_app_lt by lia. rewrite <- Hbl. split; [reflexivity|lia].
          -- destruct (balanced_avl ll k0 v0 r Hall Har ltac:(lia)) as (t' & Hbal & Hat & Hbt & Hht & Hhe).
             exists t'. split; [exact Hbal|]. split; auto. split.
             ++ rewrite Hbt, Hbl. cbn [bindings]. now rewrite put_app_lt by lia.
             ++ cbn [height]. destruct (Z_le_gt_dec (height _ _ ll - height _ _ r) 2).
                ** assert (-2 <= height _ _ ll - height _ _ r <= 2) by lia. specialize (Hhe H). lia.
                ** lia.
        * destruct (IHr Har Hsr fuel ltac:(lia)) as (rr & Hins & Harr & Hbr & Hhr). rewrite Hins. cbn [bind].
          assert (k0 < k) by lia.
          destruct (phys_eq (Map Z V) r rr) eqn:Ep.
          -- apply phys_eq_sound in Ep. subst rr. eexists; split; [reflexivity|]. split; auto.
             cbn [bindings height]. rewrite put_app_gt by auto. rewrite <- Hbr. split; [reflexivity|lia].
          -- destruct (balanced_avl l k0 v0 rr Hal Harr ltac:(lia)) as (t' & Hbal & Hat & Hbt & Hht & Hhe).
             exists t'. split; [exact Hbal|]. split; auto. split.
             ++ rewrite Hbt, Hbr. cbn [bindings]. now rewrite put_app_gt by auto.
             ++ cbn [height]. destruct (Z_le_gt_dec (height _ _ rr - height _ _ l) 2).
                ** assert (-2 <= height _ _ l - height _ _ rr <= 2) by lia. specialize (Hhe H0). lia.
                ** lia.
  Qed.
End Proofs.

Print Assumptions insert_correct.
