const puppeteer = require('/root/.nvm/versions/node/v20.20.2/lib/node_modules/puppeteer');
const fs = require('fs');
(async () => {
  const browser = await puppeteer.launch({headless: 'shell', args: ['--no-sandbox','--disable-gpu']});
  const page = await browser.newPage();
  const bytes = fs.readFileSync('out/__all__.wasm');
  const res = await page.evaluate(async (b64) => {
    const bytes = Uint8Array.from(atob(b64), c => c.charCodeAt(0));
    const out = [];
    let instance = null;
    function s(arr){ const len = instance.exports.__strLen(arr); let r=''; for (let i=0;i<len;i++) r+=String.fromCharCode(instance.exports.__strGet(arr,i)); return r;}
    const builtins = { __Process$println(_, a){ out.push(s(a)); return 0; }, __Process$panic(_, a){ throw new Error(s(a)); } };
    try {
      const m = new WebAssembly.Module(bytes);
      instance = new WebAssembly.Instance(m, {builtins});
      const main = Object.keys(instance.exports).filter(k=>k.endsWith('Main$main'));
      instance.exports[main[0]]();
      return {out, ok:true, exports:Object.keys(instance.exports)};
    } catch (e) { return {out, ok:false, err: String(e), cls: e.constructor.name}; }
  }, bytes.toString('base64'));
  console.log(JSON.stringify(res));
  await browser.close();
})().catch(e => { console.error('FAIL', e.message.slice(0,500)); process.exit(2); });
