#!/bin/bash
# Builds the framework from files on disk only (offline): Coq theories (full .vo build) and the harness.
set -e
cd /verif/coq
./mkproject.sh
timeout 3000 make -j16 > /verif/work-setup-coq.log 2>&1 || { tail -30 /verif/work-setup-coq.log; exit 1; }
cd /verif/harness
[ -f Cargo.lock ] || cp /repo/Cargo.lock Cargo.lock
export CARGO_NET_OFFLINE=true
RUSTFLAGS="--cfg samlang_verif" CARGO_TARGET_DIR=/verif/harness/target timeout 3000 cargo build --offline 2>&1 | tail -3
echo setup-ok
