#!/bin/bash
# Builds the framework from files on disk only (offline): Coq theories (full .vo build) and the harness.
cd /verif/coq
./mkproject.sh 2>/dev/null
timeout 3000 make -k -j16 > /verif/work-setup-coq.log 2>&1
# every registered property's theorem file must have been built
missing=0
for p in $(python3 -c "import json; print(' '.join(c['property_id'] for c in json.load(open('/verif/MANIFEST.json'))['checks']))"); do
  if [ -f theories/$p/Props.v ] && [ ! -f theories/$p/Props.vo ]; then echo "setup: theories/$p/Props.vo not built"; missing=1; fi
done
if [ $missing = 1 ]; then tail -30 /verif/work-setup-coq.log; exit 1; fi
cd /verif/harness
[ -f Cargo.lock ] || cp /repo/Cargo.lock Cargo.lock
export CARGO_NET_OFFLINE=true
RUSTFLAGS="--cfg samlang_verif" CARGO_TARGET_DIR=/verif/harness/target timeout 3000 cargo build --offline 2>&1 | tail -3
RUSTFLAGS="--cfg samlang_verif" CARGO_TARGET_DIR=/verif/harness/target timeout 3000 cargo build --offline --release 2>&1 | tail -1
[ -x /verif/harness/target/debug/vh ] || exit 1
echo setup-ok
