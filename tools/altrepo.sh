#!/bin/bash
# usage: tools/altrepo.sh <name> <patch.diff> -- <check command...>
# Runs a check against a patched COPY of /repo (git worktree under /tmp) with its own harness build,
# so that /repo itself is never touched (helpers and registered checks keep seeing the real tree).
# Keeps the copy for reuse: remove with `tools/altrepo.sh --rm <name>`.
set -e
if [ "$1" = "--rm" ]; then
  git -C /repo worktree remove --force /tmp/alt-$2 2>/dev/null || true
  rm -rf /tmp/alt-$2 /tmp/alt-$2-harness
  exit 0
fi
name=$1; patch=$2; shift 2; [ "$1" = "--" ] && shift
wt=/tmp/alt-$name; hz=/tmp/alt-$name-harness
if [ ! -d $wt ]; then
  git -C /repo worktree add -q --detach $wt HEAD
  [ -n "$patch" ] && [ "$patch" != "none" ] && git -C $wt apply $patch
fi
if [ ! -d $hz ]; then
  mkdir -p $hz/.cargo
  ln -s /verif/harness/src $hz/src
  sed "s#/repo/crates#$wt/crates#g" /verif/harness/Cargo.toml > $hz/Cargo.toml
  cp /verif/harness/.cargo/config.toml $hz/.cargo/config.toml
  cp $wt/Cargo.lock $hz/Cargo.lock
fi
cd /verif
VERIF_REPO=$wt VERIF_HARNESS=$hz "$@"
