#!/bin/bash
# usage: verify_seed.sh <worktree> <OUT subdir> ; verifies: tests pass with patch, demo fails with patch, demo passes without
wt=$1; out=$2; log=$wt/$out/verify.log
cd $wt
git checkout -q -- . 2>/dev/null
git apply $out/patch.diff || { echo "APPLY-FAILED" > $log; exit 1; }
export CARGO_NET_OFFLINE=true
( cargo test --workspace --no-fail-fast --offline 2>&1 | grep -E "^test result" | awk '{p+=$4; f+=$6} END {print "TESTS-WITH-PATCH passed=" p " failed=" f}' ) > $log 2>&1
if [ -f $out/demo/run.sh ]; then ( bash $out/demo/run.sh > $out/demo_with.log 2>&1; echo "DEMO-WITH-PATCH exit=$?" >> $log ); fi
git checkout -q -- .
git status --short | grep -v OUT | head -3 >> $log
if [ -f $out/demo/run.sh ]; then ( bash $out/demo/run.sh > $out/demo_without.log 2>&1; echo "DEMO-WITHOUT-PATCH exit=$?" >> $log ); fi
git checkout -q -- .
cat $log
